package main

import (
	"fmt"
	"go/constant"
	"go/token"
	"go/types"
	"math"
	"math/big"
	"os"
	"strings"

	"golang.org/x/tools/go/ssa"
)

type Input struct {
	Name  string
	Kind  string  // bool,u64,i64,u8,bytes,str,atom,choose
	Terms []*Term // symbols (one per byte for bytes/str)
	N     int     // choose: chosen value
	Lits  []string
}

type Event struct {
	Kind  string // reach, observe, assert, panic
	Label string
	Vals  []value
}

type Violation struct {
	Harness             string
	Label               string
	Kind                string // assert | panic | inconclusive
	Msg                 string
	Trace               []int
	Model               []interface{} // concrete input values in creation order
	Pos                 string
	Stack               []string
	Events              []string
	Replayed, Confirmed bool
	ReplayNote          string
	NativeEvents        []string
}

type frame struct {
	in       *Interp
	fn       *ssa.Function
	caller   *frame
	env      map[ssa.Value]value
	block    *ssa.BasicBlock
	prev     *ssa.BasicBlock
	defers   []func()
	result   value
	locals   []value
	backEdge map[*ssa.BasicBlock]int
	callPos  token.Pos
}

type Interp struct {
	prog              *ssa.Program
	eng               *Engine
	sol               *Solver
	prefix            []int
	pos               int
	trace             []int
	forks             [][]int
	globals           map[*ssa.Global]*value
	initDone          map[*ssa.Package]bool
	inputs            []*Input
	frozen            map[*value]string
	frozenMap         map[*MapV]string
	events            []Event
	steps             int64
	blocks            int64
	depth             int
	nsym              int
	ndef              int
	litIdx            map[string]int
	lits              []string
	glen              map[string]*Term
	fresh             map[string]*Term
	symMapOrder       bool
	unwind            int
	inconclusive      []string
	violations        []*Violation
	curFrame          *frame
	harness           string
	funcsSeen         map[*ssa.Function]bool
	summUsed          map[string]bool
	mapIDs            int
	expectPanic       bool
	assertsChecked    int
	assertsDischarged int
	pcCount           int
	extra             map[string]interface{}
	syncHook          func(op string, mu value)
	panics            []*panicState
	sched             *schedState
	maxLZ             int // leading zero bytes allowed in generated keys / signatures
	errStack          []string
	errWhere          string
}

// ---------- solver plumbing ----------

func (in *Interp) assert(c *Term) {
	if c.IsTrue() {
		return
	}
	in.sol.Send("(assert " + c.S + ")")
	in.pcCount++
}

func (in *Interp) newSym(w int, hint string) *Term {
	name := fmt.Sprintf("s%d_%s", in.nsym, sanitize(hint))
	in.nsym++
	if w == 0 {
		in.sol.Send("(declare-const " + name + " Bool)")
	} else {
		in.sol.Send(fmt.Sprintf("(declare-const %s (_ BitVec %d))", name, w))
	}
	return sym(w, name)
}

func sanitize(s string) string {
	var sb strings.Builder
	for _, c := range s {
		if c >= 'a' && c <= 'z' || c >= 'A' && c <= 'Z' || c >= '0' && c <= '9' || c == '_' {
			sb.WriteRune(c)
		} else {
			sb.WriteByte('_')
		}
	}
	return sb.String()
}

// share names big terms with define-fun to keep the text small.
func (in *Interp) share(t *Term) *Term {
	if t.Const || len(t.S) < 160 {
		return t
	}
	name := fmt.Sprintf("d%d", in.ndef)
	in.ndef++
	sort := "Bool"
	if t.W > 0 {
		sort = fmt.Sprintf("(_ BitVec %d)", t.W)
	}
	in.sol.Send(fmt.Sprintf("(define-fun %s () %s %s)", name, sort, t.S))
	return &Term{W: t.W, S: name}
}

// decide picks one of mutually exclusive, jointly exhaustive conditions; feasible alternatives are queued.
func (in *Interp) decide(conds []*Term) int {
	if in.pos < len(in.prefix) {
		i := in.prefix[in.pos]
		in.pos++
		in.trace = append(in.trace, i)
		in.assert(conds[i])
		return i
	}
	var feas []int
	for i, c := range conds {
		if c.IsFalse() {
			continue
		}
		if c.IsTrue() {
			feas = append(feas, i)
			continue
		}
		if i == len(conds)-1 && len(feas) == 0 {
			feas = append(feas, i) // exhaustive + feasible path => last one must hold
			continue
		}
		r, msg := in.sol.CheckWith(c.S)
		if r != Unsat {
			feas = append(feas, i)
			if r == Unknown {
				in.inconclusive = append(in.inconclusive, "branch feasibility unknown: "+msg+" at "+in.where())
			}
		}
	}
	if len(feas) == 0 {
		panic(pathKilled{"infeasible"})
	}
	for _, alt := range feas[1:] {
		p := make([]int, len(in.trace)+1)
		copy(p, in.trace)
		p[len(in.trace)] = alt
		in.forks = append(in.forks, p)
	}
	in.trace = append(in.trace, feas[0])
	in.pos++
	in.assert(conds[feas[0]])
	return feas[0]
}

func (in *Interp) branch(c *Term) bool {
	if c.Const {
		return c.IsTrue()
	}
	c = in.share(c)
	return in.decide([]*Term{c, Not(c)}) == 0
}

// chooseN forks over 0..n-1 unconditionally.
func (in *Interp) chooseN(n int) int {
	if n <= 1 {
		return 0
	}
	cs := make([]*Term, n)
	for i := range cs {
		cs[i] = tTrue
	}
	return in.decide(cs)
}

func (in *Interp) panicIf(c *Term, msg string) {
	if c.Const {
		if c.IsTrue() {
			panic(targetPanic{Msg: msg})
		}
		return
	}
	c = in.share(c)
	if in.decide([]*Term{Not(c), c}) == 1 {
		panic(targetPanic{Msg: msg})
	}
}

func (in *Interp) where() string {
	fr := in.curFrame
	if fr == nil {
		return "?"
	}
	return fr.fn.String()
}

func (in *Interp) stack() []string {
	var s []string
	for fr := in.curFrame; fr != nil; fr = fr.caller {
		pos := ""
		if fr.callPos.IsValid() {
			p := in.prog.Fset.Position(fr.callPos)
			pos = fmt.Sprintf(" (called at %s:%d)", shortPath(p.Filename), p.Line)
		}
		s = append(s, fr.fn.String()+pos)
	}
	return s
}

func shortPath(p string) string {
	if i := strings.Index(p, "/repo/"); i >= 0 {
		return p[i+6:]
	}
	if i := strings.Index(p, "/pkg/mod/"); i >= 0 {
		return p[i+9:]
	}
	return p
}

// ---------- types ----------

func intInfo(t types.Type) (w int, signed bool, ok bool) {
	b, isB := t.Underlying().(*types.Basic)
	if !isB {
		return 0, false, false
	}
	switch b.Kind() {
	case types.Int, types.Int64, types.UntypedInt, types.UntypedRune:
		return 64, true, true
	case types.Int8:
		return 8, true, true
	case types.Int16:
		return 16, true, true
	case types.Int32:
		return 32, true, true
	case types.Uint, types.Uint64, types.Uintptr:
		return 64, false, true
	case types.Uint8:
		return 8, false, true
	case types.Uint16:
		return 16, false, true
	case types.Uint32:
		return 32, false, true
	}
	return 0, false, false
}

func isString(t types.Type) bool {
	b, ok := t.Underlying().(*types.Basic)
	return ok && b.Info()&types.IsString != 0
}
func isFloat(t types.Type) bool {
	b, ok := t.Underlying().(*types.Basic)
	return ok && b.Info()&types.IsFloat != 0
}
func isBool(t types.Type) bool {
	b, ok := t.Underlying().(*types.Basic)
	return ok && b.Info()&types.IsBoolean != 0
}

func zero(t types.Type) value {
	switch t := t.Underlying().(type) {
	case *types.Basic:
		if w, _, ok := intInfo(t); ok {
			return BVu(w, 0)
		}
		switch {
		case t.Info()&types.IsBoolean != 0:
			return tFalse
		case t.Info()&types.IsString != 0:
			return emptyStr
		case t.Info()&types.IsFloat != 0:
			return &Flt{}
		case t.Kind() == types.UnsafePointer, t.Kind() == types.UntypedNil:
			return nil
		}
		panic(engineErr("zero of basic %v", t))
	case *types.Pointer:
		return (*value)(nil)
	case *types.Slice:
		return &Slice{Nil: true}
	case *types.Map:
		return (*MapV)(nil)
	case *types.Interface:
		return Iface{}
	case *types.Struct:
		s := make(Struct, t.NumFields())
		for i := range s {
			s[i] = zero(t.Field(i).Type())
		}
		return s
	case *types.Array:
		a := make(Array, t.Len())
		for i := range a {
			a[i] = zero(t.Elem())
		}
		return a
	case *types.Signature:
		return nil
	case *types.Chan:
		return nil
	case *types.Tuple:
		tu := make(Tuple, t.Len())
		for i := range tu {
			tu[i] = zero(t.At(i).Type())
		}
		return tu
	}
	panic(engineErr("zero of %v (%T)", t, t))
}

func copyVal(v value) value {
	switch v := v.(type) {
	case Struct:
		c := make(Struct, len(v))
		for i := range v {
			c[i] = copyVal(v[i])
		}
		return c
	case Array:
		c := make(Array, len(v))
		for i := range v {
			c[i] = copyVal(v[i])
		}
		return c
	}
	return v
}

// store writes v into *addr, preserving the identity of nested struct/array slots.
func (in *Interp) store(addr *value, v value) {
	if addr == nil {
		panic(targetPanic{Msg: "nil pointer dereference (store)"})
	}
	switch v := v.(type) {
	case Struct:
		if cur, ok := (*addr).(Struct); ok && len(cur) == len(v) {
			for i := range v {
				in.store(&cur[i], v[i])
			}
			return
		}
		in.checkFrozen(addr)
		*addr = copyVal(v)
		return
	case Array:
		if cur, ok := (*addr).(Array); ok && len(cur) == len(v) {
			for i := range v {
				in.store(&cur[i], v[i])
			}
			return
		}
		in.checkFrozen(addr)
		*addr = copyVal(v)
		return
	}
	if in.sameScalar(addr, v) {
		// a frozen slot is overwritten with the value it holds (under every input of this path): not a mutation
		if in.sched != nil {
			in.schedEvent("write", addr)
		}
		*addr = v
		return
	}
	in.checkFrozen(addr)
	*addr = v
}

// sameScalar: addr is a frozen scalar slot and v can only be the value it already holds. When the values can differ
// the difference is asserted for the rest of the path's model capture (the frozen-write violation recorded next needs
// an input on which the write changes something).
func (in *Interp) sameScalar(addr *value, v value) bool {
	if len(in.frozen) == 0 {
		return false
	}
	if _, frozen := in.frozen[addr]; !frozen {
		return false
	}
	var diff *Term
	if os, isStr := (*addr).(*Str); isStr {
		ns, ok := v.(*Str)
		if !ok {
			return false
		}
		diff = Not(in.strEq(os, ns))
	} else {
		ot, ok1 := (*addr).(*Term)
		nt, ok2 := v.(*Term)
		if !ok1 || !ok2 || ot.W != nt.W {
			return false
		}
		diff = Not(Eq(ot, nt))
	}
	if diff.Const {
		return diff.IsFalse()
	}
	diff = in.share(diff)
	if r, _ := in.sol.CheckWith(diff.S); r == Unsat {
		return true
	}
	// a real change is possible: explore the path on which it happens
	if !in.branch(diff) {
		return true
	}
	return false
}

func (in *Interp) checkFrozen(addr *value) {
	if in.sched != nil {
		in.schedEvent("write", addr)
	}
	if len(in.frozen) == 0 {
		return
	}
	if what, ok := in.frozen[addr]; ok {
		in.recordViolation("frozen-write", "assert", "write to frozen input object ("+what+") in "+in.where())
	}
}

func (in *Interp) load(addr *value) value {
	if addr == nil {
		panic(targetPanic{Msg: "nil pointer dereference"})
	}
	if in.sched != nil {
		in.schedEvent("read", addr)
	}
	return copyVal(*addr)
}

// ---------- frame helpers ----------

func (fr *frame) get(v ssa.Value) value {
	switch v := v.(type) {
	case *ssa.Const:
		return fr.in.constValue(v)
	case *ssa.Global:
		return fr.in.global(v)
	case *ssa.Function:
		return v
	case *ssa.Builtin:
		return v
	case nil:
		return nil
	}
	if r, ok := fr.env[v]; ok {
		return r
	}
	panic(engineErr("get: no value for %T %s in %s", v, v.Name(), fr.fn))
}

func (in *Interp) constValue(c *ssa.Const) value {
	t := c.Type()
	if c.Value == nil {
		return zero(t)
	}
	if w, _, ok := intInfo(t); ok {
		if i, exact := constant.Int64Val(constant.ToInt(c.Value)); exact {
			return BVi(w, i)
		}
		u, _ := constant.Uint64Val(constant.ToInt(c.Value))
		return BVu(w, u)
	}
	switch {
	case isBool(t):
		return Bool(constant.BoolVal(c.Value))
	case isString(t):
		if c.Value.Kind() == constant.String {
			return lit(constant.StringVal(c.Value))
		}
		// int constant converted to string
		i, _ := constant.Int64Val(constant.ToInt(c.Value))
		return lit(string(rune(i)))
	case isFloat(t):
		f, _ := constant.Float64Val(c.Value)
		return &Flt{C: f}
	}
	panic(engineErr("constValue: %v of type %v", c, t))
}

func (in *Interp) global(g *ssa.Global) *value {
	if p, ok := in.globals[g]; ok {
		return p
	}
	if g.Pkg != nil {
		in.ensureInit(g.Pkg)
	}
	if p, ok := in.globals[g]; ok {
		return p
	}
	p := new(value)
	*p = zero(g.Type().(*types.Pointer).Elem())
	in.globals[g] = p
	return p
}

var initProf = os.Getenv("SYMGO_INITPROF") != ""

var skipInit = map[string]bool{"errors": true, "strings": true, "bytes": true, "sort": true, "strconv": true, "math": true, "math/bits": true,
	"slices": true, "cmp": true, "github.com/pkg/errors": true, "internal/bytealg": true, "internal/stringslite": true, "internal/itoa": true,
	"encoding/binary": true, "github.com/go-jose/go-jose/v3/json": true, "github.com/trustbloc/did-go/doc/did": true, "github.com/trustbloc/did-go/vdr/api": true, "github.com/go-jose/go-jose/v3/cipher": true, "unicode/utf8": true, "unicode/utf16": true, "unicode": true, "container/list": true}

// ensureInit runs the package initialiser of executed packages (once per path).
func (in *Interp) ensureInit(p *ssa.Package) {
	if in.initDone[p] {
		return
	}
	in.initDone[p] = true
	for _, m := range p.Members {
		if g, ok := m.(*ssa.Global); ok {
			if _, have := in.globals[g]; !have {
				slot := new(value)
				*slot = zero(g.Type().(*types.Pointer).Elem())
				in.globals[g] = slot
			}
		}
	}
	if !in.eng.execPkg(p.Pkg.Path()) || skipInit[p.Pkg.Path()] {
		return
	}
	if initFn := p.Func("init"); initFn != nil && initFn.Blocks != nil {
		save := in.curFrame
		steps0 := in.steps
		defer func() {
			if initProf {
				fmt.Fprintf(os.Stderr, "INIT %s: %d steps (inclusive)\n", p.Pkg.Path(), in.steps-steps0)
			}
		}()
		func() {
			defer func() {
				if r := recover(); r != nil {
					if ee, ok := r.(*EngineError); ok {
						panic(engineErr("%s [in init of %s]", ee.Msg, p.Pkg.Path()))
					}
					panic(r)
				}
			}()
			in.callSSA(nil, token.NoPos, initFn, nil, nil)
		}()
		in.curFrame = save
	}
}

// ---------- running ----------

func (in *Interp) call(caller *frame, pos token.Pos, fn value, args []value) value {
	switch fn := fn.(type) {
	case *ssa.Function:
		if fn == nil {
			panic(targetPanic{Msg: "call of nil function"})
		}
		return in.callFn(caller, pos, fn, args)
	case *Closure:
		return in.callSSA(caller, pos, fn.Fn, args, fn.Env)
	case *ssa.Builtin:
		return in.callBuiltin(caller, fn, args)
	case *NativeFn:
		return fn.F(in, args)
	case nil:
		panic(targetPanic{Msg: "call of nil function value"})
	}
	panic(engineErr("cannot call %T", fn))
}

func (in *Interp) callFn(caller *frame, pos token.Pos, fn *ssa.Function, args []value) value {
	name := fn.String()
	if fn.Pkg != nil && fn.Pkg.Pkg.Path() == rtPkgPath {
		if fn.Name() == "init" {
			return nil
		}
		return in.intrinsic(caller, fn.Name(), args, pos)
	}
	if s, ok := summaries[name]; ok {
		if v, handled := s(in, fn, args); handled {
			in.summUsed[name] = true
			return v
		}
	}
	if pp := fnPkgPath(fn); isNoopPkg(pp) {
		in.summUsed[pp+".* (no-op)"] = true
		return zeroResult(fn)
	}
	if fn.Synthetic != "" && fn.Pkg == nil && fn.Origin() == nil {
		// wrappers / thunks / bound methods: execute
		if fn.Blocks != nil {
			return in.callSSA(caller, pos, fn, args, nil)
		}
	}
	if fn.Name() == "init" && fn.Pkg != nil && fn.Synthetic != "" {
		// package initialiser reached from another init
		in.ensureInit(fn.Pkg)
		return nil
	}
	pkgPath := ""
	if p := fn.Package(); p != nil {
		pkgPath = p.Pkg.Path()
	} else if o := fn.Origin(); o != nil && o.Package() != nil {
		pkgPath = o.Package().Pkg.Path()
	} else if fn.Object() != nil && fn.Object().Pkg() != nil {
		pkgPath = fn.Object().Pkg().Path()
	}
	if fn.Blocks == nil {
		panic(engineErr("unsupported call (no body): %s", name))
	}
	if pkgPath != "" && !in.eng.execPkg(pkgPath) {
		panic(engineErr("unsupported call: %s (package %s not in execute-through list)", name, pkgPath))
	}
	return in.callSSA(caller, pos, fn, args, nil)
}

const maxDepth = 400

func (in *Interp) callSSA(caller *frame, pos token.Pos, fn *ssa.Function, args []value, env []value) value {
	if fn.Blocks == nil {
		panic(engineErr("no body for %s", fn))
	}
	if p := fn.Package(); p != nil {
		in.ensureInit(p)
	}
	in.depth++
	if in.depth > maxDepth {
		panic(targetPanic{Msg: "unbounded recursion (stack exhaustion): depth > 400 in " + fn.String(), Fatal: true})
	}
	defer func() { in.depth-- }()
	in.funcsSeen[fn] = true
	fr := &frame{in: in, fn: fn, caller: caller, env: make(map[ssa.Value]value, 16), callPos: pos}
	for i, p := range fn.Params {
		fr.env[p] = args[i]
	}
	for i, fv := range fn.FreeVars {
		fr.env[fv] = env[i]
	}
	for _, l := range fn.Locals {
		slot := new(value)
		fr.env[l] = slot
	}
	fr.block = fn.Blocks[0]
	saved := in.curFrame
	in.curFrame = fr
	// run the body; a target panic unwinds through the deferred calls, which may recover it
	var escaped interface{}
	func() {
		defer func() {
			if r := recover(); r != nil {
				escaped = r
			}
		}()
		for fr.block != nil {
			in.runBlock(fr)
		}
	}()
	if escaped != nil {
		in.curFrame = fr
		if in.errStack == nil {
			in.errStack = in.stack()
			in.errWhere = fr.fn.String()
		}
		tp, isTarget := escaped.(targetPanic)
		if !isTarget || len(fr.defers) == 0 || tp.Fatal {
			panic(escaped)
		}
		ps := &panicState{val: tp, frame: fr}
		in.panics = append(in.panics, ps)
		ds := fr.defers
		fr.defers = nil
		var second interface{}
		func() {
			defer func() {
				if r := recover(); r != nil {
					second = r
				}
			}()
			for i := len(ds) - 1; i >= 0; i-- {
				ds[i]()
			}
		}()
		in.panics = in.panics[:len(in.panics)-1]
		if second != nil {
			panic(second)
		}
		if !ps.recovered {
			panic(escaped)
		}
		// recovered: continue at the recover block (named results) or return zero values
		in.errStack, in.errWhere = nil, ""
		in.curFrame = fr
		if fn.Recover != nil {
			fr.block = fn.Recover
			fr.prev = nil
			for fr.block != nil {
				in.runBlock(fr)
			}
		} else {
			fr.result = zeroResult(fn)
		}
	}
	in.curFrame = saved
	return fr.result
}

type panicState struct {
	val       targetPanic
	recovered bool
	frame     *frame // the panicking frame whose deferred calls are running
}

func (in *Interp) runBlock(fr *frame) {
	b := fr.block
	in.blocks++
	// phis first (parallel assignment)
	nphi := 0
	var phiVals []value
	for _, instr := range b.Instrs {
		phi, ok := instr.(*ssa.Phi)
		if !ok {
			break
		}
		nphi++
		for i, pred := range b.Preds {
			if pred == fr.prev {
				phiVals = append(phiVals, fr.get(phi.Edges[i]))
				break
			}
		}
	}
	for i := 0; i < nphi; i++ {
		fr.env[b.Instrs[i].(*ssa.Phi)] = phiVals[i]
	}
	for _, instr := range b.Instrs[nphi:] {
		in.steps++
		if in.visit(fr, instr) {
			return
		}
	}
}

func (in *Interp) jump(fr *frame, to *ssa.BasicBlock) {
	if to.Index <= fr.block.Index {
		if fr.backEdge == nil {
			fr.backEdge = map[*ssa.BasicBlock]int{}
		}
		fr.backEdge[to]++
		if fr.backEdge[to] > in.unwind {
			panic(engineErr("UNWIND: back-edge limit %d exceeded in %s", in.unwind, fr.fn))
		}
	}
	fr.prev, fr.block = fr.block, to
}

// visit executes one instruction; returns true if control transferred.
func (in *Interp) visit(fr *frame, instr ssa.Instruction) bool {
	switch instr := instr.(type) {
	case *ssa.DebugRef:
	case *ssa.UnOp:
		fr.env[instr] = in.unop(instr, fr.get(instr.X))
	case *ssa.BinOp:
		fr.env[instr] = in.binop(instr.Op, instr.X.Type(), fr.get(instr.X), fr.get(instr.Y))
	case *ssa.Call:
		fn, args := in.prepareCall(fr, &instr.Call)
		fr.env[instr] = in.call(fr, instr.Pos(), fn, args)
		in.curFrame = fr
	case *ssa.ChangeInterface:
		fr.env[instr] = fr.get(instr.X)
	case *ssa.ChangeType:
		fr.env[instr] = fr.get(instr.X)
	case *ssa.Convert:
		fr.env[instr] = in.conv(instr.Type(), instr.X.Type(), fr.get(instr.X))
	case *ssa.MakeInterface:
		fr.env[instr] = Iface{T: instr.X.Type(), V: fr.get(instr.X)}
	case *ssa.Extract:
		fr.env[instr] = fr.get(instr.Tuple).(Tuple)[instr.Index]
	case *ssa.Slice:
		fr.env[instr] = in.sliceOp(instr, fr.get(instr.X), fr.get(instr.Low), fr.get(instr.High), fr.get(instr.Max))
	case *ssa.Return:
		switch len(instr.Results) {
		case 0:
		case 1:
			fr.result = fr.get(instr.Results[0])
		default:
			res := make(Tuple, len(instr.Results))
			for i, r := range instr.Results {
				res[i] = fr.get(r)
			}
			fr.result = res
		}
		fr.block = nil
		return true
	case *ssa.RunDefers:
		ds := fr.defers
		fr.defers = nil
		for i := len(ds) - 1; i >= 0; i-- {
			ds[i]()
		}
		in.curFrame = fr
	case *ssa.Panic:
		v := fr.get(instr.X)
		panic(targetPanic{Msg: "explicit panic: " + in.describe(v), V: v})
	case *ssa.Store:
		in.store(fr.get(instr.Addr).(*value), fr.get(instr.Val))
	case *ssa.If:
		c := fr.get(instr.Cond).(*Term)
		succ := 1
		if in.branch(c) {
			succ = 0
		}
		in.jump(fr, fr.block.Succs[succ])
		return true
	case *ssa.Jump:
		in.jump(fr, fr.block.Succs[0])
		return true
	case *ssa.Defer:
		fn, args := in.prepareCall(fr, &instr.Call)
		pos := instr.Pos()
		fr.defers = append(fr.defers, func() { in.call(fr, pos, fn, args) })
	case *ssa.Alloc:
		var addr *value
		if instr.Heap {
			addr = new(value)
			fr.env[instr] = addr
		} else {
			addr = fr.env[instr].(*value)
		}
		*addr = zero(instr.Type().Underlying().(*types.Pointer).Elem())
	case *ssa.MakeSlice:
		n := in.makeLen(fr.get(instr.Len).(*Term))
		c := n
		if instr.Cap != instr.Len {
			c = in.makeLen(fr.get(instr.Cap).(*Term))
		}
		if n < 0 || c < n {
			panic(targetPanic{Msg: "makeslice: len out of range"})
		}
		data := make([]value, c)
		et := instr.Type().Underlying().(*types.Slice).Elem()
		for i := range data {
			data[i] = zero(et)
		}
		fr.env[instr] = &Slice{Data: data[:n]}
	case *ssa.MakeMap:
		in.mapIDs++
		fr.env[instr] = &MapV{KeyT: instr.Type().Underlying().(*types.Map).Key(), id: in.mapIDs}
	case *ssa.Range:
		fr.env[instr] = in.rangeIter(fr.get(instr.X), instr.X.Type())
	case *ssa.Next:
		fr.env[instr] = fr.get(instr.Iter).(iterator).next(in)
	case *ssa.FieldAddr:
		p := fr.get(instr.X).(*value)
		if p == nil {
			panic(targetPanic{Msg: "nil pointer dereference (field " + fieldName(instr.X.Type(), instr.Field) + ")"})
		}
		s, ok := (*p).(Struct)
		if !ok {
			panic(engineErr("FieldAddr on %T", *p))
		}
		fr.env[instr] = &s[instr.Field]
	case *ssa.Field:
		fr.env[instr] = fr.get(instr.X).(Struct)[instr.Field]
	case *ssa.IndexAddr:
		x := fr.get(instr.X)
		idx := fr.get(instr.Index).(*Term)
		idx = toW(idx, 64, isSigned(instr.Index.Type()))
		switch x := x.(type) {
		case *Slice:
			if x.Ghost != nil {
				if fb, ok := ghostFirstByte(x.Ghost); ok && idx.Const && idx.Int() == 0 {
					slot := new(value)
					*slot = fb
					fr.env[instr] = slot
					break
				}
				panic(engineErr("index into ghost byte slice %s", x.Ghost.Key()))
			}
			i := in.indexCheck(idx, len(x.Data))
			fr.env[instr] = &x.Data[i]
		case *value:
			if x == nil {
				panic(targetPanic{Msg: "nil pointer dereference (array)"})
			}
			a := (*x).(Array)
			i := in.indexCheck(idx, len(a))
			fr.env[instr] = &a[i]
		default:
			panic(engineErr("IndexAddr on %T", x))
		}
	case *ssa.Index:
		x := fr.get(instr.X)
		idx := toW(fr.get(instr.Index).(*Term), 64, isSigned(instr.Index.Type()))
		switch x := x.(type) {
		case Array:
			i := in.indexCheck(idx, len(x))
			fr.env[instr] = x[i]
		case *Str:
			b := in.strBytes(x, "string index")
			i := in.indexCheck(idx, len(b))
			fr.env[instr] = b[i]
		default:
			panic(engineErr("Index on %T", x))
		}
	case *ssa.Lookup:
		fr.env[instr] = in.lookup(instr, fr.get(instr.X), fr.get(instr.Index))
	case *ssa.MapUpdate:
		m := fr.get(instr.Map).(*MapV)
		in.mapUpdate(m, fr.get(instr.Key), fr.get(instr.Value))
	case *ssa.TypeAssert:
		fr.env[instr] = in.typeAssert(instr, fr.get(instr.X).(Iface))
	case *ssa.MakeClosure:
		var b []value
		for _, x := range instr.Bindings {
			b = append(b, fr.get(x))
		}
		fr.env[instr] = &Closure{Fn: instr.Fn.(*ssa.Function), Env: b}
	case *ssa.SliceToArrayPointer:
		panic(engineErr("SliceToArrayPointer unsupported"))
	default:
		panic(engineErr("unsupported instruction %T in %s", instr, fr.fn))
	}
	return false
}

// makeLen concretises a (possibly symbolic) allocation length: absurd sizes are a crash of the real
// program (out of memory is fatal, negative lengths panic), small ones are enumerated.
func (in *Interp) makeLen(t *Term) int {
	t = toW(t, 64, true)
	if t.Const {
		if t.Int() > 1<<30 {
			panic(targetPanic{Msg: "makeslice: allocation size controlled by the input (out of memory)", Fatal: true})
		}
		return int(t.Int())
	}
	t = in.share(t)
	in.panicIf(SLt(t, BVu(64, 0)), "makeslice: len out of range")
	if in.branch(SLt(BVu(64, 1<<30), t)) {
		panic(targetPanic{Msg: "makeslice: allocation size controlled by the input (out of memory)", Fatal: true})
	}
	const lim = 128
	conds := make([]*Term, lim+2)
	for i := 0; i <= lim; i++ {
		conds[i] = Eq(t, BVu(64, uint64(i)))
	}
	conds[lim+1] = ULt(BVu(64, lim), t)
	k := in.decide(conds)
	if k > lim {
		panic(engineErr("symbolic allocation length above %d in %s", lim, in.where()))
	}
	return k
}

func fieldName(t types.Type, i int) string {
	if p, ok := t.Underlying().(*types.Pointer); ok {
		if s, ok := p.Elem().Underlying().(*types.Struct); ok && i < s.NumFields() {
			return s.Field(i).Name()
		}
	}
	return fmt.Sprint(i)
}

func isSigned(t types.Type) bool {
	_, s, _ := intInfo(t)
	return s
}

func toW(t *Term, w int, signed bool) *Term {
	if t.W == w {
		return t
	}
	if signed {
		return SExt(t, w)
	}
	return ZExt(t, w)
}

func (in *Interp) concreteInt(v value, what string) int {
	t := v.(*Term)
	if !t.Const {
		panic(engineErr("symbolic %s not supported (%s) in %s", what, t.S, in.where()))
	}
	return int(t.Int())
}

// indexCheck: bounds check (may fork a panic path) and concretise a symbolic index by forking.
func (in *Interp) indexCheck(idx *Term, n int) int {
	if idx.Const {
		i := idx.Int()
		if i < 0 || i >= int64(n) {
			panic(targetPanic{Msg: fmt.Sprintf("index out of range [%d] with length %d", i, n)})
		}
		return int(i)
	}
	idx = in.share(idx)
	conds := make([]*Term, n+1)
	for i := 0; i < n; i++ {
		conds[i] = Eq(idx, BVu(64, uint64(i)))
	}
	conds[n] = Not(ULt(idx, BVu(64, uint64(n))))
	k := in.decide(conds)
	if k == n {
		panic(targetPanic{Msg: fmt.Sprintf("index out of range [symbolic] with length %d", n)})
	}
	return k
}

func (in *Interp) prepareCall(fr *frame, c *ssa.CallCommon) (value, []value) {
	v := fr.get(c.Value)
	var args []value
	var fn value
	if c.Method == nil {
		fn = v
	} else {
		recv := v.(Iface)
		if recv.T == nil {
			panic(targetPanic{Msg: "nil pointer dereference (method " + c.Method.Name() + " invoked on nil interface)"})
		}
		f := in.prog.LookupMethod(recv.T, c.Method.Pkg(), c.Method.Name())
		if f == nil {
			panic(engineErr("no method %s for dynamic type %v", c.Method.Name(), recv.T))
		}
		fn = f
		args = append(args, recv.V)
	}
	for _, a := range c.Args {
		args = append(args, fr.get(a))
	}
	return fn, args
}

// ---------- operators ----------

func (in *Interp) unop(instr *ssa.UnOp, x value) value {
	switch instr.Op {
	case token.MUL:
		return in.load(x.(*value))
	case token.NOT:
		return Not(x.(*Term))
	case token.SUB:
		switch x := x.(type) {
		case *Term:
			return Neg(x)
		case *Flt:
			if x.IsSym {
				if x.I != nil {
					return &Flt{IsSym: true, I: Neg(x.I)}
				}
				return &Flt{IsSym: true, Bits: BXor(x.Bits, BVu(64, 1<<63)), Dec: x.Dec}
			}
			return &Flt{C: -x.C}
		}
	case token.XOR:
		return BNot(x.(*Term))
	case token.ARROW:
		panic(engineErr("channel receive unsupported"))
	}
	panic(engineErr("unop %v on %T", instr.Op, x))
}

func (in *Interp) binop(op token.Token, t types.Type, x, y value) value {
	switch op {
	case token.EQL:
		return in.equal(t, x, y)
	case token.NEQ:
		return Not(in.equal(t, x, y))
	}
	switch x := x.(type) {
	case *Term:
		y := y.(*Term)
		w, signed, isInt := intInfo(t)
		if !isInt { // bool ops don't occur as BinOp except ==, !=
			panic(engineErr("binop %v on bool", op))
		}
		switch op {
		case token.ADD:
			return Add(x, y)
		case token.SUB:
			return Sub(x, y)
		case token.MUL:
			return Mul(x, y)
		case token.QUO, token.REM:
			in.panicIf(Eq(y, BVu(w, 0)), "integer divide by zero")
			if signed {
				if op == token.QUO {
					return SDiv(x, y)
				}
				return SRem(x, y)
			}
			if op == token.QUO {
				return UDiv(x, y)
			}
			return URem(x, y)
		case token.AND:
			return BAnd(x, y)
		case token.OR:
			return BOr(x, y)
		case token.XOR:
			return BXor(x, y)
		case token.AND_NOT:
			return BAndNot(x, y)
		case token.SHL, token.SHR:
			// y may have a different width/signedness; negative shift panics (ignored: unsigned in practice)
			var amt *Term
			if y.W >= w {
				// saturate: if y >= w then result is 0/sign
				big := Not(ULt(y, BVu(y.W, uint64(w))))
				amt = Ite(big, BVu(w, uint64(w)), Extract(y, w-1, 0))
			} else {
				amt = ZExt(y, w)
			}
			if op == token.SHL {
				return Shl(x, amt)
			}
			if signed {
				return AShr(x, amt)
			}
			return LShr(x, amt)
		case token.LSS:
			if signed {
				return SLt(x, y)
			}
			return ULt(x, y)
		case token.LEQ:
			if signed {
				return SLe(x, y)
			}
			return ULe(x, y)
		case token.GTR:
			if signed {
				return SLt(y, x)
			}
			return ULt(y, x)
		case token.GEQ:
			if signed {
				return SLe(y, x)
			}
			return ULe(y, x)
		}
	case *Str:
		y := y.(*Str)
		switch op {
		case token.ADD:
			return concatStr(x, y)
		case token.LSS, token.LEQ, token.GTR, token.GEQ:
			return in.strCompare(op, x, y)
		}
	case *Flt:
		return in.floatBinop(op, x, y.(*Flt))
	}
	panic(engineErr("binop %v on %T", op, x))
}

func (in *Interp) floatBinop(op token.Token, x, y *Flt) value {
	if !x.IsSym && !y.IsSym {
		switch op {
		case token.ADD:
			return &Flt{C: x.C + y.C}
		case token.SUB:
			return &Flt{C: x.C - y.C}
		case token.MUL:
			return &Flt{C: x.C * y.C}
		case token.QUO:
			return &Flt{C: x.C / y.C}
		case token.LSS:
			return Bool(x.C < y.C)
		case token.LEQ:
			return Bool(x.C <= y.C)
		case token.GTR:
			return Bool(x.C > y.C)
		case token.GEQ:
			return Bool(x.C >= y.C)
		}
	}
	// symbolic: floating-point theory on bit patterns
	a, b := in.fpTerm(x), in.fpTerm(y)
	switch op {
	case token.LSS:
		return &Term{W: 0, S: "(fp.lt " + a + " " + b + ")"}
	case token.LEQ:
		return &Term{W: 0, S: "(fp.leq " + a + " " + b + ")"}
	case token.GTR:
		return &Term{W: 0, S: "(fp.gt " + a + " " + b + ")"}
	case token.GEQ:
		return &Term{W: 0, S: "(fp.geq " + a + " " + b + ")"}
	}
	panic(engineErr("symbolic float op %v", op))
}

func (in *Interp) fpTerm(x *Flt) string {
	if !x.IsSym {
		return "((_ to_fp 11 53) " + BVu(64, math.Float64bits(x.C)).S + ")"
	}
	if x.Bits != nil {
		return "((_ to_fp 11 53) " + x.Bits.S + ")"
	}
	return "((_ to_fp 11 53) RNE " + x.I.S + ")"
}

func (in *Interp) floatEq(x, y *Flt) *Term {
	if !x.IsSym && !y.IsSym {
		return Bool(x.C == y.C)
	}
	if x.IsSym && y.IsSym && x.I != nil && y.I != nil {
		return Eq(x.I, y.I)
	}
	return &Term{W: 0, S: "(fp.eq " + in.fpTerm(x) + " " + in.fpTerm(y) + ")"}
}

// equal implements Go's == on values of static type t.
func (in *Interp) equal(t types.Type, x, y value) *Term {
	switch x := x.(type) {
	case *Term:
		return Eq(x, y.(*Term))
	case *Str:
		return in.strEq(x, y.(*Str))
	case *Flt:
		return in.floatEq(x, y.(*Flt))
	case *value:
		yy, _ := y.(*value)
		return Bool(x == yy)
	case *MapV:
		yy, _ := y.(*MapV)
		return Bool(x == yy) // only comparison with nil is legal
	case *Slice:
		ys := y.(*Slice)
		if ys.Nil && ys.Data == nil && ys.Ghost == nil {
			return Bool(x.Nil)
		}
		if x.Nil {
			return Bool(ys.Nil)
		}
		panic(engineErr("slice comparison"))
	case Iface:
		yi := y.(Iface)
		if x.T == nil || yi.T == nil {
			return Bool(x.T == nil && yi.T == nil)
		}
		if !types.Identical(x.T, yi.T) {
			return tFalse
		}
		return in.equal(x.T, x.V, yi.V)
	case Struct:
		ys := y.(Struct)
		st := t.Underlying().(*types.Struct)
		var cs []*Term
		for i := range x {
			cs = append(cs, in.equal(st.Field(i).Type(), x[i], ys[i]))
		}
		return And(cs...)
	case Array:
		ya := y.(Array)
		et := t.Underlying().(*types.Array).Elem()
		var cs []*Term
		for i := range x {
			cs = append(cs, in.equal(et, x[i], ya[i]))
		}
		return And(cs...)
	case nil:
		return Bool(isNilValue(y))
	case *ssa.Function, *Closure, *NativeFn:
		return Bool(isNilValue(y) && isNilValue(x))
	}
	panic(engineErr("equal on %T", x))
}

func isNilValue(v value) bool {
	switch v := v.(type) {
	case nil:
		return true
	case *value:
		return v == nil
	case *MapV:
		return v == nil
	case *Slice:
		return v.Nil
	case Iface:
		return v.T == nil
	case *ssa.Function:
		return v == nil
	case *Closure:
		return v == nil
	}
	return false
}

// ---------- conversions ----------

func (in *Interp) conv(dst, src types.Type, x value) value {
	ud, us := dst.Underlying(), src.Underlying()
	if dw, _, ok := intInfo(ud); ok {
		if _, ssigned, ok2 := intInfo(us); ok2 {
			return toW(x.(*Term), dw, ssigned)
		}
		if isFloat(us) {
			f := x.(*Flt)
			if !f.IsSym {
				return BVi(dw, int64(f.C))
			}
			if f.I != nil {
				return toW(f.I, dw, true)
			}
			panic(engineErr("float->int of symbolic bits"))
		}
	}
	if isFloat(ud) {
		if _, ssigned, ok := intInfo(us); ok {
			t := x.(*Term)
			if t.Const {
				if ssigned {
					return &Flt{C: float64(t.Int())}
				}
				return &Flt{C: float64(t.Uint())}
			}
			return &Flt{IsSym: true, I: toW(t, 64, ssigned)}
		}
		if isFloat(us) {
			return x
		}
	}
	if isString(ud) {
		switch us := us.(type) {
		case *types.Basic:
			if isString(us) {
				return x
			}
			if _, _, ok := intInfo(us); ok {
				t := x.(*Term)
				if !t.Const {
					return &Str{Kind: sBytes, B: in.encodeRune(toW(t, 32, false))}
				}
				return lit(string(rune(t.Int())))
			}
		case *types.Slice:
			s := x.(*Slice)
			if s.Ghost != nil {
				return s.Ghost
			}
			if eb, ok := us.Elem().Underlying().(*types.Basic); ok && eb.Kind() == types.Int32 {
				// []rune -> string : encode each rune
				var out []*Term
				for _, r := range s.Data {
					out = append(out, in.encodeRune(r.(*Term))...)
				}
				return &Str{Kind: sBytes, B: out}
			}
			b := make([]*Term, len(s.Data))
			for i, e := range s.Data {
				b[i] = e.(*Term)
			}
			return &Str{Kind: sBytes, B: b}
		}
	}
	if sl, ok := ud.(*types.Slice); ok && isString(us) {
		s := x.(*Str)
		if eb, ok := sl.Elem().Underlying().(*types.Basic); ok && eb.Kind() == types.Int32 {
			rs := in.decodeRunes(s)
			data := make([]value, len(rs))
			for i, r := range rs {
				data[i] = r
			}
			return &Slice{Data: data}
		}
		if s.Kind != sBytes {
			return &Slice{Ghost: s}
		}
		data := make([]value, len(s.B))
		for i, b := range s.B {
			data[i] = b
		}
		return &Slice{Data: data}
	}
	if _, ok := ud.(*types.Pointer); ok {
		return x
	}
	if b, ok := ud.(*types.Basic); ok && b.Kind() == types.UnsafePointer {
		return x
	}
	panic(engineErr("conv %v -> %v", src, dst))
}

func (in *Interp) encodeRune(r *Term) []*Term {
	if !r.Const {
		// symbolic rune: fork by encoded length
		r64 := ZExt(r, 32)
		switch in.decide([]*Term{ULt(r64, BVu(32, 0x80)), And(Not(ULt(r64, BVu(32, 0x80))), ULt(r64, BVu(32, 0x800))),
			And(Not(ULt(r64, BVu(32, 0x800))), ULt(r64, BVu(32, 0x10000))), Not(ULt(r64, BVu(32, 0x10000)))}) {
		case 0:
			return []*Term{Extract(r64, 7, 0)}
		case 1:
			return []*Term{BOr(BVu(8, 0xC0), Extract(LShr(r64, BVu(32, 6)), 7, 0)), BOr(BVu(8, 0x80), BAnd(Extract(r64, 7, 0), BVu(8, 0x3F)))}
		case 2:
			// surrogates -> U+FFFD
			isSur := And(Not(ULt(r64, BVu(32, 0xD800))), ULt(r64, BVu(32, 0xE000)))
			if in.branch(isSur) {
				return lit("�").B
			}
			return []*Term{BOr(BVu(8, 0xE0), Extract(LShr(r64, BVu(32, 12)), 7, 0)),
				BOr(BVu(8, 0x80), BAnd(Extract(LShr(r64, BVu(32, 6)), 7, 0), BVu(8, 0x3F))),
				BOr(BVu(8, 0x80), BAnd(Extract(r64, 7, 0), BVu(8, 0x3F)))}
		default:
			if in.branch(Not(ULe(r64, BVu(32, 0x10FFFF)))) {
				return lit("�").B
			}
			return []*Term{BOr(BVu(8, 0xF0), Extract(LShr(r64, BVu(32, 18)), 7, 0)),
				BOr(BVu(8, 0x80), BAnd(Extract(LShr(r64, BVu(32, 12)), 7, 0), BVu(8, 0x3F))),
				BOr(BVu(8, 0x80), BAnd(Extract(LShr(r64, BVu(32, 6)), 7, 0), BVu(8, 0x3F))),
				BOr(BVu(8, 0x80), BAnd(Extract(r64, 7, 0), BVu(8, 0x3F)))}
		}
	}
	return lit(string(rune(int32(r.Int())))).B
}

// decodeRunes decodes UTF-8; symbolic bytes fork on the lead-byte class.
func (in *Interp) decodeRunes(s *Str) []*Term {
	b := in.strBytes(s, "rune decoding")
	var out []*Term
	i := 0
	for i < len(b) {
		r, n := in.decodeRune(b[i:])
		out = append(out, r)
		i += n
	}
	return out
}

func (in *Interp) decodeRune(b []*Term) (*Term, int) {
	allConst := true
	for i := 0; i < len(b) && i < 4; i++ {
		if !b[i].Const {
			allConst = false
		}
	}
	if allConst {
		raw := make([]byte, 0, 4)
		for i := 0; i < len(b) && i < 4; i++ {
			raw = append(raw, byte(b[i].Uint()))
		}
		r, n := decodeRuneBytes(raw)
		return BVi(32, int64(r)), n
	}
	// symbolic: ASCII or not (non-ASCII multi-byte symbolic decoding: handled by forking on validity classes)
	b0 := b[0]
	if in.branch(ULt(b0, BVu(8, 0x80))) {
		return ZExt(b0, 32), 1
	}
	cont := func(t *Term) *Term { return Eq(BAnd(t, BVu(8, 0xC0)), BVu(8, 0x80)) }
	x := func(t *Term) *Term { return ZExt(BAnd(t, BVu(8, 0x3F)), 32) }
	bad := BVu(32, 0xFFFD)
	// two-byte
	if len(b) >= 2 && in.branch(And(Not(ULt(b0, BVu(8, 0xC2))), ULt(b0, BVu(8, 0xE0)), cont(b[1]))) {
		return BOr(Shl(ZExt(BAnd(b0, BVu(8, 0x1F)), 32), BVu(32, 6)), x(b[1])), 2
	}
	if len(b) >= 3 {
		r := BOr(BOr(Shl(ZExt(BAnd(b0, BVu(8, 0x0F)), 32), BVu(32, 12)), Shl(x(b[1]), BVu(32, 6))), x(b[2]))
		ok := And(Eq(BAnd(b0, BVu(8, 0xF0)), BVu(8, 0xE0)), cont(b[1]), cont(b[2]),
			Not(ULt(r, BVu(32, 0x800))), Or(ULt(r, BVu(32, 0xD800)), Not(ULt(r, BVu(32, 0xE000)))))
		if in.branch(ok) {
			return r, 3
		}
	}
	if len(b) >= 4 {
		r := BOr(BOr(BOr(Shl(ZExt(BAnd(b0, BVu(8, 0x07)), 32), BVu(32, 18)), Shl(x(b[1]), BVu(32, 12))), Shl(x(b[2]), BVu(32, 6))), x(b[3]))
		ok := And(Eq(BAnd(b0, BVu(8, 0xF8)), BVu(8, 0xF0)), cont(b[1]), cont(b[2]), cont(b[3]),
			Not(ULt(r, BVu(32, 0x10000))), ULe(r, BVu(32, 0x10FFFF)))
		if in.branch(ok) {
			return r, 4
		}
	}
	return bad, 1
}

func decodeRuneBytes(b []byte) (rune, int) {
	s := string(b)
	for _, r := range s {
		// first rune
		n := len(string(r))
		if r == 0xFFFD {
			// could be invalid encoding (width 1) or a real U+FFFD (width 3)
			if len(b) >= 3 && b[0] == 0xEF && b[1] == 0xBF && b[2] == 0xBD {
				return r, 3
			}
			return r, 1
		}
		return r, n
	}
	return 0xFFFD, 1
}

// ---------- slices ----------

func (in *Interp) sliceOp(instr *ssa.Slice, x, lo, hi, max value) value {
	get := func(v value, def int) (int, bool) {
		if v == nil {
			return def, true
		}
		t := v.(*Term)
		if !t.Const {
			return 0, false
		}
		return int(t.Int()), true
	}
	conc := func(v value, def int, limit int, what string) int {
		if i, ok := get(v, def); ok {
			return i
		}
		// symbolic bound: fork over 0..limit, out of range => panic path
		t := toW(v.(*Term), 64, true)
		return in.indexCheckIncl(t, limit, what)
	}
	switch x := x.(type) {
	case *Str:
		if x.Kind != sBytes {
			// structured string sliced at a position obtained from Index/LastIndex
			if lo == nil || (lo.(*Term).Const && lo.(*Term).Int() == 0) {
				if hi == nil {
					return x
				}
				if sp, ok := in.extra["idx:"+hi.(*Term).S].(*splitPoint); ok && sp.s.Key() == x.Key() {
					return sp.before
				}
			} else if hi == nil {
				if sp, ok := in.extra["idx:"+lo.(*Term).S].(*splitPoint); ok && sp.s.Key() == x.Key() {
					return sp.after
				}
			}
		}
		if x.Kind != sBytes {
			// structured string cut at a position that provably is a part boundary or lies inside a byte-precise part
			if r, ok := in.sliceStructured(x, lo, hi); ok {
				return r
			}
		}
		b := in.strBytes(x, "string slicing")
		l := conc(lo, 0, len(b), "slice low")
		h := conc(hi, len(b), len(b), "slice high")
		if l < 0 || h > len(b) || l > h {
			panic(targetPanic{Msg: fmt.Sprintf("slice bounds out of range [%d:%d] with length %d", l, h, len(b))})
		}
		return &Str{Kind: sBytes, B: b[l:h]}
	case *Slice:
		if x.Ghost != nil {
			loZero := lo == nil || (lo.(*Term).Const && lo.(*Term).Int() == 0)
			if loZero && hi == nil {
				return x
			}
			panic(engineErr("slicing ghost byte slice %s", x.Ghost.Key()))
		}
		c := cap(x.Data)
		l := conc(lo, 0, c, "slice low")
		h := conc(hi, len(x.Data), c, "slice high")
		m := conc(max, c, c, "slice max")
		if l < 0 || h > c || l > h || m > c || h > m {
			panic(targetPanic{Msg: fmt.Sprintf("slice bounds out of range [%d:%d:%d] with capacity %d", l, h, m, c)})
		}
		if x.Nil && l == 0 && h == 0 {
			return &Slice{Nil: true}
		}
		return &Slice{Data: x.Data[:c][l:h:m]}
	case *value:
		if x == nil {
			panic(targetPanic{Msg: "nil pointer dereference (slice of array pointer)"})
		}
		a := (*x).(Array)
		l := conc(lo, 0, len(a), "slice low")
		h := conc(hi, len(a), len(a), "slice high")
		m := conc(max, len(a), len(a), "slice max")
		if l < 0 || h > len(a) || l > h || h > m {
			panic(targetPanic{Msg: "slice bounds out of range (array)"})
		}
		return &Slice{Data: []value(a)[l:h:m]}
	}
	panic(engineErr("slice of %T", x))
}

func (in *Interp) indexCheckIncl(idx *Term, n int, what string) int {
	idx = in.share(idx)
	conds := make([]*Term, n+2)
	for i := 0; i <= n; i++ {
		conds[i] = Eq(idx, BVu(64, uint64(i)))
	}
	conds[n+1] = Not(ULe(idx, BVu(64, uint64(n))))
	k := in.decide(conds)
	if k == n+1 {
		panic(targetPanic{Msg: what + " out of range [symbolic]"})
	}
	return k
}

// ---------- type assertions ----------

func (in *Interp) typeAssert(instr *ssa.TypeAssert, x Iface) value {
	ok := false
	if x.T != nil {
		if it, isI := instr.AssertedType.Underlying().(*types.Interface); isI {
			ok = types.Implements(x.T, it)
			if !ok {
				// pointer receiver methods
				ok = types.AssignableTo(x.T, instr.AssertedType)
			}
		} else {
			ok = types.Identical(x.T, instr.AssertedType)
		}
	}
	var v value
	if ok {
		if _, isI := instr.AssertedType.Underlying().(*types.Interface); isI {
			v = x
		} else {
			v = x.V
		}
	} else {
		v = zero(instr.AssertedType)
	}
	if instr.CommaOk {
		return Tuple{v, Bool(ok)}
	}
	if !ok {
		dyn := "nil"
		if x.T != nil {
			dyn = x.T.String()
		}
		panic(targetPanic{Msg: fmt.Sprintf("interface conversion: interface is %s, not %s", dyn, instr.AssertedType)})
	}
	return v
}

// ---------- maps ----------

func (in *Interp) keyEq(m *MapV, a, b value) *Term {
	return in.equal(m.KeyT, a, b)
}

// find returns the entry for key (forking on symbolic equalities); nil if absent.
func (in *Interp) mapFind(m *MapV, key value) *MapEntry {
	if m == nil {
		return nil
	}
	if in.sched != nil {
		in.schedEvent("read", m)
	}
	var live []*MapEntry
	var conds []*Term
	none := []*Term{}
	for _, e := range m.Entries {
		if e.Del {
			continue
		}
		c := in.keyEq(m, e.K, key)
		if c.IsTrue() {
			return e
		}
		if c.IsFalse() {
			continue
		}
		c = in.share(c)
		live = append(live, e)
		conds = append(conds, c)
		none = append(none, Not(c))
	}
	if len(live) == 0 {
		return nil
	}
	conds = append(conds, And(none...))
	k := in.decide(conds)
	if k == len(live) {
		return nil
	}
	return live[k]
}

func (in *Interp) lookup(instr *ssa.Lookup, x, key value) value {
	switch x := x.(type) {
	case *Str:
		b := in.strBytes(x, "string index")
		i := in.indexCheck(toW(key.(*Term), 64, true), len(b))
		return b[i]
	case *MapV:
		e := in.mapFind(x, key)
		var v value
		if e != nil {
			v = copyVal(e.V)
		} else {
			v = zero(instr.X.Type().Underlying().(*types.Map).Elem())
		}
		if instr.CommaOk {
			return Tuple{v, Bool(e != nil)}
		}
		return v
	}
	panic(engineErr("lookup on %T", x))
}

func (in *Interp) mapUpdate(m *MapV, key, v value) {
	if m == nil {
		panic(targetPanic{Msg: "assignment to entry in nil map"})
	}
	if m.frozen {
		in.recordViolation("frozen-write", "assert", "write to frozen input map in "+in.where())
	}
	if in.sched != nil {
		in.schedEvent("write", m)
	}
	if e := in.mapFind(m, key); e != nil {
		e.V = copyVal(v)
		return
	}
	m.Entries = append(m.Entries, &MapEntry{K: key, V: copyVal(v)})
}

func (in *Interp) mapDelete(m *MapV, key value) {
	if m == nil {
		return
	}
	if e := in.mapFind(m, key); e != nil {
		if m.frozen {
			in.recordViolation("frozen-write", "assert", "delete from frozen input map in "+in.where())
		}
		e.Del = true
		// compact
		var out []*MapEntry
		for _, x := range m.Entries {
			if !x.Del {
				out = append(out, x)
			}
		}
		m.Entries = out
	}
}

func (m *MapV) Len() int {
	if m == nil {
		return 0
	}
	n := 0
	for _, e := range m.Entries {
		if !e.Del {
			n++
		}
	}
	return n
}

// ---------- range ----------

type iterator interface {
	next(in *Interp) Tuple
}

type mapIter struct {
	m       *MapV
	entries []*MapEntry
	i       int
}

func (it *mapIter) next(in *Interp) Tuple {
	for it.i < len(it.entries) {
		e := it.entries[it.i]
		it.i++
		if e.Del {
			continue
		}
		return Tuple{tTrue, e.K, copyVal(e.V)}
	}
	return Tuple{tFalse, nil, nil}
}

type strIter struct {
	b []*Term
	i int
}

func (it *strIter) next(in *Interp) Tuple {
	if it.i >= len(it.b) {
		return Tuple{tFalse, BVu(64, 0), BVu(32, 0)}
	}
	r, n := in.decodeRune(it.b[it.i:])
	idx := it.i
	it.i += n
	return Tuple{tTrue, BVu(64, uint64(idx)), r}
}

func (in *Interp) rangeIter(x value, t types.Type) iterator {
	switch x := x.(type) {
	case *MapV:
		it := &mapIter{m: x}
		if x != nil && in.sched != nil {
			in.schedEvent("read", x)
		}
		if x != nil {
			for _, e := range x.Entries {
				if !e.Del {
					it.entries = append(it.entries, e)
				}
			}
			if in.symMapOrder && len(it.entries) > 1 {
				// symbolic permutation: choose successive elements
				rest := it.entries
				var perm []*MapEntry
				for len(rest) > 1 {
					k := in.chooseN(len(rest))
					perm = append(perm, rest[k])
					rest = append(append([]*MapEntry{}, rest[:k]...), rest[k+1:]...)
				}
				perm = append(perm, rest[0])
				it.entries = perm
			}
		}
		return it
	case *Str:
		return &strIter{b: in.strBytes(x, "range over string")}
	}
	panic(engineErr("range over %T", x))
}

// ---------- builtins ----------

func (in *Interp) callBuiltin(caller *frame, fn *ssa.Builtin, args []value) value {
	switch fn.Name() {
	case "len":
		switch x := args[0].(type) {
		case *Str:
			return in.strLen(x)
		case *Slice:
			if x.Ghost != nil {
				return in.strLen(x.Ghost)
			}
			return BVu(64, uint64(len(x.Data)))
		case *MapV:
			return BVu(64, uint64(x.Len()))
		case Array:
			return BVu(64, uint64(len(x)))
		case *value:
			if x == nil {
				panic(targetPanic{Msg: "nil pointer dereference (len of nil array pointer)"})
			}
			return BVu(64, uint64(len((*x).(Array))))
		}
	case "cap":
		switch x := args[0].(type) {
		case *Slice:
			return BVu(64, uint64(cap(x.Data)))
		case Array:
			return BVu(64, uint64(len(x)))
		}
	case "append":
		s := args[0].(*Slice)
		var add []value
		switch y := args[1].(type) {
		case *Slice:
			if y.Ghost != nil {
				if len(s.Data) == 0 && s.Ghost == nil {
					return &Slice{Ghost: y.Ghost}
				}
				panic(engineErr("append of ghost bytes to non-empty slice"))
			}
			add = y.Data
		case *Str:
			for _, b := range in.strBytes(y, "append string") {
				add = append(add, b)
			}
		}
		if s.Ghost != nil {
			if len(add) == 0 {
				return s
			}
			bs := make([]*Term, len(add))
			for i, a := range add {
				bs[i] = a.(*Term)
			}
			return &Slice{Ghost: concatStr(s.Ghost, &Str{Kind: sBytes, B: bs})}
		}
		if len(add) == 0 {
			return s
		}
		// writes into spare capacity hit existing slots
		n := len(s.Data)
		if n+len(add) <= cap(s.Data) {
			full := s.Data[:n+len(add)]
			for i, a := range add {
				in.checkFrozen(&full[n+i])
				full[n+i] = copyVal(a)
			}
			return &Slice{Data: full}
		}
		nd := make([]value, n, growCap(cap(s.Data), n+len(add)))
		copy(nd, s.Data)
		for _, a := range add {
			nd = append(nd, copyVal(a))
		}
		return &Slice{Data: nd}
	case "copy":
		dst := args[0].(*Slice)
		var src []value
		switch y := args[1].(type) {
		case *Slice:
			if y.Ghost != nil {
				panic(engineErr("copy from ghost bytes"))
			}
			src = y.Data
		case *Str:
			for _, b := range in.strBytes(y, "copy string") {
				src = append(src, b)
			}
		}
		n := len(src)
		if len(dst.Data) < n {
			n = len(dst.Data)
		}
		tmp := make([]value, n)
		for i := 0; i < n; i++ {
			tmp[i] = copyVal(src[i])
		}
		for i := 0; i < n; i++ {
			in.store(&dst.Data[i], tmp[i])
		}
		return BVu(64, uint64(n))
	case "delete":
		in.mapDelete(args[0].(*MapV), args[1])
		return nil
	case "ssa:wrapnilchk":
		if p, ok := args[0].(*value); ok && p == nil {
			panic(targetPanic{Msg: "value method called using nil pointer"})
		}
		return args[0]
	case "print", "println":
		return nil
	case "recover":
		// recover stops a panic only when called directly by a deferred function (Go spec): a helper called from
		// the deferred function gets nil and the panic continues
		if n := len(in.panics); n > 0 && !in.panics[n-1].recovered && in.curFrame != nil && in.curFrame.caller == in.panics[n-1].frame {
			ps := in.panics[n-1]
			ps.recovered = true
			if iv, ok := ps.val.V.(Iface); ok && iv.T != nil {
				return iv
			}
			return Iface{T: types.Typ[types.String], V: lit("runtime error: " + ps.val.Msg)}
		}
		return Iface{}
	case "min", "max":
		acc := args[0].(*Term)
		_, signed, _ := intInfo(fn.Type().(*types.Signature).Params().At(0).Type())
		for _, a := range args[1:] {
			b := a.(*Term)
			var lt *Term
			if signed {
				lt = SLt(b, acc)
			} else {
				lt = ULt(b, acc)
			}
			if fn.Name() == "max" {
				lt = Not(Or(lt, Eq(b, acc)))
				// lt now: b > acc
			}
			acc = Ite(lt, b, acc)
		}
		return acc
	case "clear":
		switch x := args[0].(type) {
		case *MapV:
			if x != nil {
				x.Entries = nil
			}
		}
		return nil
	}
	panic(engineErr("builtin %s on %T", fn.Name(), args[0]))
}

func growCap(old, need int) int {
	c := old * 2
	if c < need {
		c = need
	}
	if c < 4 {
		c = 4
	}
	return c
}

func (in *Interp) describe(v value) string {
	switch v := v.(type) {
	case Iface:
		if v.T == nil {
			return "nil"
		}
		return v.T.String() + ":" + in.describe(v.V)
	case *Str:
		if c, ok := v.Concrete(); ok {
			return fmt.Sprintf("%q", c)
		}
		return v.Key()
	case *Term:
		return v.S
	case *value:
		if v == nil {
			return "nil"
		}
		return "&" + in.describe(*v)
	case Struct:
		var parts []string
		for _, f := range v {
			parts = append(parts, in.describe(f))
		}
		return "{" + strings.Join(parts, ",") + "}"
	}
	return fmt.Sprintf("%T", v)
}

var _ = big.NewInt

// sliceStructured: s[lo:hi] on a structured string. A cut point is accepted when it provably (by constant folding or
// by the solver, under the path condition) equals the length of a prefix made of whole parts plus k bytes of the
// following byte-precise part. A cut beyond the string's length is a slice-bounds panic like in Go.
func (in *Interp) sliceStructured(x *Str, lo, hi value) (*Str, bool) {
	cut := func(s *Str, at *Term) (before, after *Str, ok bool) {
		ps := parts(s)
		cum := BVu(64, 0)
		at = toW(at, 64, true)
		same := func(a, b *Term) bool {
			e := Eq(a, b)
			if e.Const {
				return e.IsTrue()
			}
			r, _ := in.sol.CheckWith(Not(e).S)
			return r == Unsat
		}
		for i := 0; i <= len(ps); i++ {
			if same(cum, at) {
				return concatStr(ps[:i]...), concatStr(ps[i:]...), true
			}
			if i == len(ps) {
				break
			}
			p := ps[i]
			if p.Kind == sBytes {
				for k := 1; k < len(p.B); k++ {
					if same(Add(cum, BVu(64, uint64(k))), at) {
						b := append(append([]*Str{}, ps[:i]...), &Str{Kind: sBytes, B: p.B[:k]})
						a := append([]*Str{{Kind: sBytes, B: p.B[k:]}}, ps[i+1:]...)
						return concatStr(b...), concatStr(a...), true
					}
				}
			}
			cum = Add(cum, in.strLen(p))
		}
		return nil, nil, false
	}
	cur := x
	if hi != nil {
		ht := hi.(*Term)
		total := in.strLen(cur)
		if in.branch(ULt(total, toW(ht, 64, true))) {
			panic(targetPanic{Msg: "slice bounds out of range (structured string)"})
		}
		b, _, ok := cut(cur, ht)
		if !ok {
			return nil, false
		}
		cur = b
	}
	if lo != nil {
		lt := lo.(*Term)
		if !(lt.Const && lt.Int() == 0) {
			_, a, ok := cut(cur, lt)
			if !ok {
				return nil, false
			}
			cur = a
		}
	}
	return cur, true
}
