package main

import (
	"fmt"
	"go/token"
	"go/types"
)

const rtPkgPath = "github.com/trustbloc/sidetree-go/pkg/internal/verifrt"

func (in *Interp) argStr(v value) string {
	return v.(*Str).MustConcrete("intrinsic argument")
}

func (in *Interp) addInput(name, kind string, terms ...*Term) *Input {
	i := &Input{Name: name, Kind: kind, Terms: terms}
	in.inputs = append(in.inputs, i)
	return i
}

func (in *Interp) recordViolation(label, kind, msg string) {
	for _, v := range in.violations {
		if v.Label == label && v.Kind == kind {
			return
		}
	}
	v := &Violation{Harness: in.harness, Label: label, Kind: kind, Msg: msg, Trace: append([]int{}, in.trace...), Stack: in.stack()}
	// model of the current path condition (the caller has asserted the failing condition in a push scope if needed)
	in.violations = append(in.violations, v)
	in.events = append(in.events, Event{Kind: "assert-fail", Label: label})
}

func (in *Interp) intrinsic(caller *frame, name string, args []value, pos token.Pos) value {
	switch name {
	case "AnyBool":
		t := in.newSym(0, in.argStr(args[0]))
		in.addInput(in.argStr(args[0]), "bool", t)
		return t
	case "AnyU64", "AnyI64", "AnyInt", "AnyUint":
		t := in.newSym(64, in.argStr(args[0]))
		in.addInput(in.argStr(args[0]), "u64", t)
		return t
	case "AnyU8":
		t := in.newSym(8, in.argStr(args[0]))
		in.addInput(in.argStr(args[0]), "u64", t)
		return t
	case "AnyU32":
		t := in.newSym(32, in.argStr(args[0]))
		in.addInput(in.argStr(args[0]), "u64", t)
		return t
	case "AnyBytes", "AnyStr":
		n := in.concreteInt(args[1], "AnyBytes length")
		nm := in.argStr(args[0])
		ts := make([]*Term, n)
		for i := range ts {
			ts[i] = in.newSym(8, fmt.Sprintf("%s_%d", nm, i))
		}
		in.addInput(nm, "bytes", ts...)
		if name == "AnyStr" {
			return &Str{Kind: sBytes, B: ts}
		}
		data := make([]value, n)
		for i := range ts {
			data[i] = ts[i]
		}
		return &Slice{Data: data}
	case "AnyAtom":
		nm := in.argStr(args[0])
		id := in.newSym(64, "atom_"+nm)
		// atoms are short non-empty strings (2..8 bytes): distinct atoms replay as distinct letter strings
		in.assert(ULe(alen(id), BVu(64, 8)))
		in.assert(ULe(BVu(64, 2), alen(id)))
		in.addInput(nm, "atom", id)
		return &Str{Kind: sAtom, Atom: id, Name: nm}
	case "Choose":
		n := in.concreteInt(args[1], "Choose n")
		k := in.chooseN(n)
		inp := in.addInput(in.argStr(args[0]), "choose")
		inp.N = k
		return BVu(64, uint64(k))
	case "Assume":
		c := args[0].(*Term)
		if c.Const {
			if c.IsFalse() {
				panic(pathKilled{"assume"})
			}
			return nil
		}
		c = in.share(c)
		r, msg := in.sol.CheckWith(c.S)
		if r == Unsat {
			panic(pathKilled{"assume"})
		}
		if r == Unknown {
			in.inconclusive = append(in.inconclusive, "assume feasibility unknown: "+msg)
		}
		in.assert(c)
		return nil
	case "Assert":
		in.checkAssert(args[0].(*Term), in.argStr(args[1]))
		return nil
	case "Fail":
		in.checkAssert(tFalse, in.argStr(args[0]))
		return nil
	case "Reach":
		in.events = append(in.events, Event{Kind: "reach", Label: in.argStr(args[0])})
		return nil
	case "Observe":
		var vals []value
		if s, ok := args[1].(*Slice); ok {
			for _, e := range s.Data {
				vals = append(vals, e)
			}
		}
		in.events = append(in.events, Event{Kind: "obs", Label: in.argStr(args[0]), Vals: vals})
		return nil
	case "Freeze":
		if s, ok := args[0].(*Slice); ok {
			for i, e := range s.Data {
				in.freeze(e, fmt.Sprintf("arg%d", i), map[interface{}]bool{})
			}
		}
		return nil
	case "CheckFrozen":
		return nil
	case "SymbolicMapOrder":
		in.symMapOrder = args[0].(*Term).IsTrue()
		return nil
	case "KeyLeadingZeros":
		in.maxLZ = in.concreteInt(args[0], "max leading zero bytes")
		return nil
	case "LeadingZerosOK":
		// symbolic run: always true; the byte terms are recorded so that the native replay can search for
		// a key / signature with the same number of leading zero bytes as in the solver's model
		s := args[1].(*Slice)
		ts := make([]*Term, len(s.Data))
		for i, b := range s.Data {
			ts[i] = b.(*Term)
		}
		in.addInput(in.argStr(args[0]), "lz", ts...)
		return tTrue
	case "NativeRetryUntil":
		inp := in.addInput(in.argStr(args[0]), "until")
		inp.N = in.concreteInt(args[1], "observed value")
		return tTrue
	case "AltBase64":
		st := args[0].(*Str)
		if st.Kind == sGhost && st.G.Ctor == "b64" {
			x := st.G.Args[0].(*Str)
			return Tuple{ghostStr("b64alt", x), Not(Eq(URem(in.strLen(x), BVu(64, 3)), BVu(64, 0)))}
		}
		if c, ok := st.Concrete(); ok && len(c)%4 != 0 && len(c) > 0 {
			const alphabet = "ABCDEFGHIJKLMNOPQRSTUVWXYZabcdefghijklmnopqrstuvwxyz0123456789-_"
			for i := 0; i < len(alphabet); i++ {
				if alphabet[i] == c[len(c)-1] {
					return Tuple{lit(c[:len(c)-1] + string(alphabet[i^1])), tTrue}
				}
			}
		}
		return Tuple{st, tFalse}
	case "FloatFromDecimal":
		// the double whose shortest round-trip decimal is d1.d2...dn x 10^E (digits symbolic, E concrete). Its bit
		// pattern is a fresh symbol tied to E by the monotonicity of decimal exponents: E(x) >= T <=> x >= nearest(10^T).
		sl := args[0].(*Slice)
		E := in.concreteInt(args[1], "decimal exponent")
		dv := &DecView{E: E}
		for _, b := range sl.Data {
			dv.Digits = append(dv.Digits, b.(*Term))
		}
		return in.decFloat(dv.Digits, E, false)
	case "SwapCase":
		// one letter (index >= 3) of an encoder's output changes case: a different, still well-formed text
		st := args[0].(*Str)
		if st.Kind == sGhost && st.G.Ctor == "b64" {
			return Tuple{ghostStr("b64case", st.G.Args[0].(*Str)), tTrue}
		}
		if c, ok := st.Concrete(); ok {
			for i := 3; i < len(c); i++ {
				if ch := c[i] | 0x20; ch >= 'a' && ch <= 'z' {
					return Tuple{lit(c[:i] + string(c[i]^0x20) + c[i+1:]), tTrue}
				}
			}
		}
		return Tuple{st, tFalse}
	case "Concurrent":
		in.concurrent(args[0].(*Slice).Data)
		return nil
	case "NativeRetries":
		return BVu(64, 1) // the symbolic run covers every choice in one pass; natively the harness repeats
	case "IgnorePanics":
		in.expectPanic = true
		return nil
	case "SetUnwind":
		in.unwind = in.concreteInt(args[0], "unwind")
		return nil
	case "JSONEqual":
		a, errA := in.toJSON(args[0], nil)
		b, errB := in.toJSON(args[1], nil)
		if errA != nil || errB != nil {
			return tFalse
		}
		return in.jsonEq(a, b)
	case "And", "Or":
		var ts []*Term
		for _, e := range args[0].(*Slice).Data {
			ts = append(ts, e.(*Term))
		}
		if name == "And" {
			return And(ts...)
		}
		return Or(ts...)
	case "Not":
		return Not(args[0].(*Term))
	case "Implies":
		return Implies(args[0].(*Term), args[1].(*Term))
	case "InRange":
		c := args[0].(*Term)
		return And(ULe(args[1].(*Term), c), ULe(c, args[2].(*Term)))
	case "IteU64":
		return Ite(args[0].(*Term), args[1].(*Term), args[2].(*Term))
	case "HexDigit":
		n := BAnd(args[0].(*Term), BVu(8, 15))
		up := args[1].(*Term)
		letter := Ite(up, Add(n, BVu(8, 'A'-10)), Add(n, BVu(8, 'a'-10)))
		return Ite(ULt(n, BVu(8, 10)), Add(n, BVu(8, '0')), letter)
	case "AnyF64Bits":
		t := in.newSym(64, in.argStr(args[0]))
		in.addInput(in.argStr(args[0]), "u64", t)
		return &Flt{IsSym: true, Bits: t}
	case "SameObject":
		return Bool(sameObject(args[0], args[1]))
	}
	panic(engineErr("unknown intrinsic verifrt.%s", name))
}

func sameObject(a, b value) bool {
	ai, aok := a.(Iface)
	bi, bok := b.(Iface)
	if aok {
		a = ai.V
		if ai.T == nil {
			a = nil
		}
	}
	if bok {
		b = bi.V
		if bi.T == nil {
			b = nil
		}
	}
	if a == nil || b == nil {
		return a == nil && b == nil
	}
	switch x := a.(type) {
	case *MapV:
		y, ok := b.(*MapV)
		return ok && x == y
	case *value:
		y, ok := b.(*value)
		return ok && x == y
	case *Slice:
		y, ok := b.(*Slice)
		if !ok {
			return false
		}
		if cap(x.Data) == 0 || cap(y.Data) == 0 {
			return cap(x.Data) == cap(y.Data) && x.Nil == y.Nil
		}
		return &x.Data[:1][0] == &y.Data[:1][0]
	}
	return false
}

// checkAssert decides an assertion with the solver.
func (in *Interp) checkAssert(c *Term, label string) {
	in.assertsChecked++
	if c.Const {
		if c.IsTrue() {
			in.assertsDischarged++
			return
		}
		n := len(in.violations)
		in.recordViolation(label, "assert", "assertion violated on every input of this path")
		if len(in.violations) > n {
			if r, _ := in.sol.Check(); r == Sat {
				in.captureModel(in.violations[len(in.violations)-1], nil)
			}
		}
		return
	}
	c = in.share(c)
	neg := Not(c)
	in.sol.Push()
	in.sol.Send("(assert " + neg.S + ")")
	r, msg := in.sol.Check()
	switch r {
	case Unsat:
		in.assertsDischarged++
		in.sol.Pop()
	case Unknown:
		in.sol.Pop()
		in.inconclusive = append(in.inconclusive, "assertion "+label+": solver answered unknown: "+msg)
	case Sat:
		n := len(in.violations)
		in.recordViolation(label, "assert", "solver found a counterexample")
		if len(in.violations) > n {
			in.captureModel(in.violations[len(in.violations)-1], nil)
		}
		in.sol.Pop()
	}
	// continue under the assumption that the assertion holds
	r2, _ := in.sol.CheckWith(c.S)
	if r2 == Unsat {
		panic(pathKilled{"assertion fails on whole path"})
	}
	in.assert(c)
}

// captureModel must be called right after a Sat answer, in the same solver scope. Models are steered towards
// ordinary keys and signatures (no leading zero byte) wherever the violation does not need one, so that the
// native replay's search for a matching key / signature stays cheap.
func (in *Interp) captureModel(v *Violation, extra []*Term) {
	pushed := 0
	for _, inp := range in.inputs {
		if inp.Kind != "lz" || len(inp.Terms) == 0 || inp.Terms[0].Const {
			continue
		}
		in.sol.Push()
		in.sol.Send("(assert (not (= " + inp.Terms[0].S + " #x00)))")
		if r, _ := in.sol.Check(); r == Sat {
			pushed++
			continue
		}
		in.sol.Pop()
		// this one needs a leading zero byte: prefer exactly the minimum (second byte non-zero)
		if len(inp.Terms) > 1 && !inp.Terms[1].Const {
			in.sol.Push()
			in.sol.Send("(assert (not (= " + inp.Terms[1].S + " #x00)))")
			if r, _ := in.sol.Check(); r == Sat {
				pushed++
				continue
			}
			in.sol.Pop()
		}
	}
	if r, _ := in.sol.Check(); r != Sat {
		in.inconclusive = append(in.inconclusive, "model extraction failed: solver lost the model")
	}
	m, err := in.modelValues()
	for i := 0; i < pushed; i++ {
		in.sol.Pop()
	}
	if err != nil {
		in.inconclusive = append(in.inconclusive, "model extraction failed: "+err.Error())
		return
	}
	v.Model = m
}

// ---------- freezing ----------

func (in *Interp) freeze(v value, what string, seen map[interface{}]bool) {
	switch x := v.(type) {
	case Iface:
		if x.T != nil {
			in.freeze(x.V, what, seen)
		}
	case *value:
		if x == nil || seen[x] {
			return
		}
		seen[x] = true
		in.frozen[x] = what
		in.freezeSlots(*x, what, seen)
	case *Slice:
		full := x.Data[:cap(x.Data)]
		for i := range full {
			if seen[&full[i]] {
				continue
			}
			seen[&full[i]] = true
			in.frozen[&full[i]] = what + "[]"
			in.freezeSlots(full[i], what+"[]", seen)
		}
	case *MapV:
		if x == nil || seen[x] {
			return
		}
		seen[x] = true
		x.frozen = true
		for _, e := range x.Entries {
			in.freeze(e.V, what+"{}", seen)
			in.freezeEntry(e, what, seen)
		}
	case Struct, Array:
		in.freezeSlots(x, what, seen)
	case *Closure:
		for _, e := range x.Env {
			in.freeze(e, what, seen)
		}
	}
}

func (in *Interp) freezeEntry(e *MapEntry, what string, seen map[interface{}]bool) {
	in.freezeSlots(e.V, what, seen)
}

// freezeSlots walks a value stored in a slot: nested struct/array fields are slots too.
func (in *Interp) freezeSlots(v value, what string, seen map[interface{}]bool) {
	switch x := v.(type) {
	case Struct:
		for i := range x {
			in.frozen[&x[i]] = what
			in.freezeSlots(x[i], what, seen)
		}
	case Array:
		for i := range x {
			in.frozen[&x[i]] = what
			in.freezeSlots(x[i], what, seen)
		}
	default:
		in.freeze(v, what, seen)
	}
}

var _ = types.Typ
