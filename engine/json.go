package main

// Type-directed model of encoding/json over engine values (DESIGN.md section 3).

import (
	"bytes"
	"encoding/json"
	"fmt"
	"go/types"
	"reflect"
	"sort"
	"strings"

	"golang.org/x/tools/go/ssa"
)

var (
	tEmptyIface = types.NewInterfaceType(nil, nil).Complete()
	tAnySlice   = types.NewSlice(tEmptyIface)
	tAnyMap     = types.NewMap(types.Typ[types.String], tEmptyIface)
)

type jsonField struct {
	name      string
	index     []int
	omitEmpty bool
	asString  bool
	typ       types.Type
}

// jsonFields lists the JSON-visible fields of a struct (embedded structs flattened, simple precedence).
func jsonFields(st *types.Struct) []jsonField {
	var out []jsonField
	seen := map[string]bool{}
	var walk func(st *types.Struct, prefix []int, depth int)
	type pending struct {
		st     *types.Struct
		prefix []int
	}
	var embedded []pending
	walk = func(st *types.Struct, prefix []int, depth int) {
		for i := 0; i < st.NumFields(); i++ {
			f := st.Field(i)
			tag := reflect.StructTag(st.Tag(i)).Get("json")
			if tag == "-" {
				continue
			}
			name, opts, _ := strings.Cut(tag, ",")
			idx := append(append([]int{}, prefix...), i)
			if f.Embedded() && name == "" {
				ft := f.Type()
				if p, ok := ft.Underlying().(*types.Pointer); ok {
					ft = p.Elem()
				}
				if est, ok := ft.Underlying().(*types.Struct); ok {
					embedded = append(embedded, pending{est, idx})
					continue
				}
			}
			if !f.Exported() {
				continue
			}
			if name == "" {
				name = f.Name()
			}
			if seen[name] {
				continue
			}
			seen[name] = true
			out = append(out, jsonField{name: name, index: idx, omitEmpty: strings.Contains(","+opts+",", ",omitempty,"),
				asString: strings.Contains(","+opts+",", ",string,"), typ: f.Type()})
		}
	}
	walk(st, nil, 0)
	for len(embedded) > 0 {
		e := embedded[0]
		embedded = embedded[1:]
		walk(e.st, e.prefix, 1)
	}
	return out
}

func (in *Interp) findMethod(t types.Type, name string) *ssa.Function {
	ms := in.prog.MethodSets.MethodSet(t)
	for i := 0; i < ms.Len(); i++ {
		sel := ms.At(i)
		if sel.Obj().Name() == name {
			return in.prog.MethodValue(sel)
		}
	}
	return nil
}

func isNamed(t types.Type, pkg, name string) bool {
	n, ok := t.(*types.Named)
	return ok && n.Obj().Name() == name && n.Obj().Pkg() != nil && n.Obj().Pkg().Path() == pkg
}

// bytesToTree interprets a byte string as JSON text.
func (in *Interp) bytesToTree(s *Str) (*JNode, bool) {
	switch s.Kind {
	case sGhost:
		if s.G.Ctor == "json" || s.G.Ctor == "canon" {
			return s.G.Args[0].(*JNode), true
		}
		return nil, false // other opaque bytes (hashes, garbage) are not JSON texts
	case sBytes:
		c, ok := s.Concrete()
		if !ok {
			panic(engineErr("JSON decoding of symbolic bytes is outside the encoding (%d bytes) in %s", len(s.B), in.where()))
		}
		n, err := parseJSONText([]byte(c))
		if err != nil {
			return nil, false
		}
		return n, true
	case sAtom:
		panic(engineErr("JSON decoding of opaque atom %s (build the value structurally) in %s", s.Name, in.where()))
	case sConcat:
		// template with holes: render holes as placeholders, parse, substitute
		return in.parseTemplate(s)
	}
	return nil, false
}

func (in *Interp) parseTemplate(s *Str) (*JNode, bool) {
	var sb strings.Builder
	holes := map[string]*Str{}
	for i, p := range s.Parts {
		if c, ok := p.Concrete(); ok {
			sb.WriteString(c)
			continue
		}
		if p.Kind == sGhost && (p.G.Ctor == "json" || p.G.Ctor == "canon") {
			ph := fmt.Sprintf("\"\\u0001HOLE%d\"", i)
			holes[fmt.Sprintf("\x01HOLE%d", i)] = p
			sb.WriteString(ph)
			continue
		}
		// opaque string inside a JSON string literal
		ph := fmt.Sprintf("\\u0001STR%d\\u0002", i)
		holes[fmt.Sprintf("\x01STR%d\x02", i)] = p
		sb.WriteString(ph)
	}
	n, err := parseJSONText([]byte(sb.String()))
	if err != nil {
		return nil, false
	}
	var subst func(n *JNode) *JNode
	substStr := func(str *Str) (*Str, *JNode) {
		c, _ := str.Concrete()
		if h, ok := holes[c]; ok {
			if h.Kind == sGhost && strings.HasPrefix(c, "\x01HOLE") {
				return nil, h.G.Args[0].(*JNode)
			}
			return h, nil
		}
		if strings.Contains(c, "\x01STR") {
			// literal text with embedded opaque parts
			var partsOut []*Str
			rest := c
			for {
				i := strings.Index(rest, "\x01STR")
				if i < 0 {
					partsOut = append(partsOut, lit(rest))
					break
				}
				j := strings.Index(rest[i:], "\x02")
				partsOut = append(partsOut, lit(rest[:i]), holes[rest[i:i+j+1]])
				rest = rest[i+j+1:]
			}
			return concatStr(partsOut...), nil
		}
		return str, nil
	}
	subst = func(n *JNode) *JNode {
		switch n.Kind {
		case jStr:
			s2, tree := substStr(n.S)
			if tree != nil {
				return tree
			}
			return &JNode{Kind: jStr, S: s2}
		case jArr:
			for i, e := range n.Elems {
				n.Elems[i] = subst(e)
			}
		case jObj:
			for i := range n.Keys {
				k2, _ := substStr(n.Keys[i])
				if k2 != nil {
					n.Keys[i] = k2
				}
				n.Vals[i] = subst(n.Vals[i])
			}
		}
		return n
	}
	return subst(n), true
}

func parseJSONText(b []byte) (*JNode, error) {
	dec := json.NewDecoder(bytes.NewReader(b))
	dec.UseNumber()
	n, err := parseJSONValue(dec)
	if err != nil {
		return nil, err
	}
	if _, err := dec.Token(); err == nil {
		return nil, fmt.Errorf("trailing data")
	}
	if !json.Valid(b) {
		return nil, fmt.Errorf("invalid json")
	}
	return n, nil
}

func parseJSONValue(dec *json.Decoder) (*JNode, error) {
	tok, err := dec.Token()
	if err != nil {
		return nil, err
	}
	switch t := tok.(type) {
	case json.Delim:
		switch t {
		case '[':
			n := &JNode{Kind: jArr}
			for dec.More() {
				e, err := parseJSONValue(dec)
				if err != nil {
					return nil, err
				}
				n.Elems = append(n.Elems, e)
			}
			if _, err := dec.Token(); err != nil {
				return nil, err
			}
			return n, nil
		case '{':
			n := &JNode{Kind: jObj}
			for dec.More() {
				kt, err := dec.Token()
				if err != nil {
					return nil, err
				}
				k, ok := kt.(string)
				if !ok {
					return nil, fmt.Errorf("bad key")
				}
				v, err := parseJSONValue(dec)
				if err != nil {
					return nil, err
				}
				// duplicate names: last wins (encoding/json semantics)
				dup := false
				for i, ek := range n.Keys {
					if c, _ := ek.Concrete(); c == k {
						n.Vals[i] = v
						dup = true
					}
				}
				if !dup {
					n.Keys = append(n.Keys, lit(k))
					n.Vals = append(n.Vals, v)
				}
			}
			if _, err := dec.Token(); err != nil {
				return nil, err
			}
			return n, nil
		}
		return nil, fmt.Errorf("unexpected delimiter")
	case bool:
		return &JNode{Kind: jBool, B: Bool(t)}, nil
	case json.Number:
		if i, err := t.Int64(); err == nil && !strings.ContainsAny(string(t), ".eE") {
			return &JNode{Kind: jNum, N: &Flt{C: float64(i), IsSym: false}, S: lit(string(t))}, nil
		}
		f, err := t.Float64()
		if err != nil {
			return nil, err
		}
		return &JNode{Kind: jNum, N: &Flt{C: f}, S: lit(string(t))}, nil
	case string:
		return &JNode{Kind: jStr, S: lit(t)}, nil
	case nil:
		return &JNode{Kind: jNull}, nil
	}
	return nil, fmt.Errorf("unexpected token")
}

// renderJSON writes concrete JSON text if the tree is fully concrete.
func renderJSON(n *JNode, canonical bool) (string, bool) {
	var sb strings.Builder
	ok := renderJSONTo(&sb, n, canonical)
	return sb.String(), ok
}

func renderJSONTo(sb *strings.Builder, n *JNode, canonical bool) bool {
	switch n.Kind {
	case jNull:
		sb.WriteString("null")
	case jBool:
		if !n.B.Const {
			return false
		}
		if n.B.IsTrue() {
			sb.WriteString("true")
		} else {
			sb.WriteString("false")
		}
	case jNum:
		if n.N.IsSym {
			return false
		}
		b, err := json.Marshal(n.N.C)
		if err != nil {
			return false
		}
		sb.Write(b)
	case jStr:
		c, ok := n.S.Concrete()
		if !ok {
			return false
		}
		if canonical {
			sb.WriteString(jcsString(c))
		} else {
			b, _ := json.Marshal(c)
			sb.Write(b)
		}
	case jArr:
		sb.WriteByte('[')
		for i, e := range n.Elems {
			if i > 0 {
				sb.WriteByte(',')
			}
			if !renderJSONTo(sb, e, canonical) {
				return false
			}
		}
		sb.WriteByte(']')
	case jObj:
		type kv struct {
			k string
			v *JNode
		}
		var kvs []kv
		for i, k := range n.Keys {
			c, ok := k.Concrete()
			if !ok {
				return false
			}
			kvs = append(kvs, kv{c, n.Vals[i]})
		}
		if canonical {
			sort.SliceStable(kvs, func(a, b int) bool { return utf16Less(kvs[a].k, kvs[b].k) })
		}
		sb.WriteByte('{')
		for i, e := range kvs {
			if i > 0 {
				sb.WriteByte(',')
			}
			if canonical {
				sb.WriteString(jcsString(e.k))
			} else {
				b, _ := json.Marshal(e.k)
				sb.Write(b)
			}
			sb.WriteByte(':')
			if !renderJSONTo(sb, e.v, canonical) {
				return false
			}
		}
		sb.WriteByte('}')
	}
	return true
}

func utf16Less(a, b string) bool {
	ra, rb := []rune(a), []rune(b)
	ua, ub := utf16Encode(ra), utf16Encode(rb)
	for i := 0; i < len(ua) && i < len(ub); i++ {
		if ua[i] != ub[i] {
			return ua[i] < ub[i]
		}
	}
	return len(ua) < len(ub)
}

func utf16Encode(rs []rune) []uint16 {
	var out []uint16
	for _, r := range rs {
		if r >= 0x10000 {
			r -= 0x10000
			out = append(out, uint16(0xD800+(r>>10)), uint16(0xDC00+(r&0x3FF)))
		} else {
			out = append(out, uint16(r))
		}
	}
	return out
}

func jcsString(s string) string {
	var sb strings.Builder
	sb.WriteByte('"')
	for _, r := range s {
		switch r {
		case '"':
			sb.WriteString(`\"`)
		case '\\':
			sb.WriteString(`\\`)
		case '\b':
			sb.WriteString(`\b`)
		case '\f':
			sb.WriteString(`\f`)
		case '\n':
			sb.WriteString(`\n`)
		case '\r':
			sb.WriteString(`\r`)
		case '\t':
			sb.WriteString(`\t`)
		default:
			if r < 0x20 {
				fmt.Fprintf(&sb, `\u%04x`, r)
			} else {
				sb.WriteRune(r)
			}
		}
	}
	sb.WriteByte('"')
	return sb.String()
}

func mkJSONBytes(tree *JNode, spelling string) *Str {
	if spelling == "canon" {
		// concrete canonical rendering only for number-free trees (number formatting is outside the model)
		if !hasNumber(tree) {
			if txt, ok := renderJSON(tree, true); ok {
				return lit(txt)
			}
		}
		return ghostStr("canon", tree)
	}
	return ghostStr("json", tree, spelling)
}

func hasNumber(n *JNode) bool {
	switch n.Kind {
	case jNum:
		return true
	case jArr:
		for _, e := range n.Elems {
			if hasNumber(e) {
				return true
			}
		}
	case jObj:
		for _, e := range n.Vals {
			if hasNumber(e) {
				return true
			}
		}
	}
	return false
}

type jsonErr struct{ msg string }

// toJSON converts an engine value of static type t into a JSON tree (json.Marshal semantics).
func (in *Interp) toJSON(v value, t types.Type) (n *JNode, err *jsonErr) {
	if iv, ok := v.(Iface); ok {
		if iv.T == nil {
			return &JNode{Kind: jNull}, nil
		}
		return in.toJSON(iv.V, iv.T)
	}
	if t == nil {
		panic(engineErr("toJSON without type for %T", v))
	}
	// Marshaler on value or pointer receiver
	if _, isPtr := t.Underlying().(*types.Pointer); isPtr {
		if p, ok := v.(*value); ok && p == nil {
			return &JNode{Kind: jNull}, nil
		}
	}
	if pt, ok := t.Underlying().(*types.Pointer); ok && isNamed(pt.Elem(), "encoding/json", "RawMessage") {
		return in.toJSON(*(v.(*value)), pt.Elem())
	}
	if m := in.findMethod(t, "MarshalJSON"); m != nil && !isNamed(t, "encoding/json", "RawMessage") {
		res := in.callFn(in.curFrame, 0, m, []value{v}).(Tuple)
		if e := res[1].(Iface); e.T != nil {
			return nil, &jsonErr{"MarshalJSON failed"}
		}
		tree, ok := in.bytesToTree(strOfSlice(in, res[0].(*Slice)))
		if !ok {
			return nil, &jsonErr{"MarshalJSON returned invalid JSON"}
		}
		return tree, nil
	}
	if isNamed(t, "encoding/json", "RawMessage") {
		s := v.(*Slice)
		if s.Nil || (s.Ghost == nil && len(s.Data) == 0) {
			return &JNode{Kind: jNull}, nil
		}
		tree, ok := in.bytesToTree(strOfSlice(in, s))
		if !ok {
			return nil, &jsonErr{"invalid RawMessage"}
		}
		return tree, nil
	}
	switch ut := t.Underlying().(type) {
	case *types.Basic:
		switch x := v.(type) {
		case *Term:
			if x.W == 0 {
				return &JNode{Kind: jBool, B: x}, nil
			}
			_, signed, _ := intInfo(ut)
			if x.Const {
				if signed {
					return &JNode{Kind: jNum, N: &Flt{C: float64(x.Int())}}, nil
				}
				return &JNode{Kind: jNum, N: &Flt{C: float64(x.Uint())}}, nil
			}
			return &JNode{Kind: jNum, N: &Flt{IsSym: true, I: toW(x, 64, signed)}}, nil
		case *Str:
			return &JNode{Kind: jStr, S: x}, nil
		case *Flt:
			return &JNode{Kind: jNum, N: x}, nil
		}
	case *types.Pointer:
		p := v.(*value)
		if p == nil {
			return &JNode{Kind: jNull}, nil
		}
		return in.toJSON(*p, ut.Elem())
	case *types.Struct:
		sv := v.(Struct)
		n := &JNode{Kind: jObj}
		for _, f := range jsonFields(ut) {
			fv := value(sv)
			skip := false
			for _, i := range f.index {
				if p, ok := fv.(*value); ok {
					if p == nil {
						skip = true
						break
					}
					fv = *p
				}
				fv = fv.(Struct)[i]
			}
			if skip {
				continue
			}
			if f.omitEmpty && in.isEmptyJSON(fv, f.typ) {
				continue
			}
			c, err := in.toJSON(fv, f.typ)
			if err != nil {
				return nil, err
			}
			n.Keys = append(n.Keys, lit(f.name))
			n.Vals = append(n.Vals, c)
		}
		return n, nil
	case *types.Map:
		m := v.(*MapV)
		if m == nil {
			return &JNode{Kind: jNull}, nil
		}
		n := &JNode{Kind: jObj}
		entries := append([]*MapEntry{}, m.Entries...)
		// encoding/json writes map members sorted by key
		allConc := true
		for _, e := range entries {
			if ks, ok := e.K.(*Str); ok {
				if _, c := ks.Concrete(); !c {
					allConc = false
				}
			}
		}
		if allConc {
			sort.SliceStable(entries, func(i, j int) bool {
				a, _ := entries[i].K.(*Str).Concrete()
				b, _ := entries[j].K.(*Str).Concrete()
				return a < b
			})
		}
		for _, e := range entries {
			if e.Del {
				continue
			}
			ks, ok := e.K.(*Str)
			if !ok {
				panic(engineErr("toJSON: map key %T", e.K))
			}
			c, err := in.toJSON(e.V, ut.Elem())
			if err != nil {
				return nil, err
			}
			n.Keys = append(n.Keys, ks)
			n.Vals = append(n.Vals, c)
		}
		return n, nil
	case *types.Slice:
		s := v.(*Slice)
		if s.Nil {
			return &JNode{Kind: jNull}, nil
		}
		if eb, ok := ut.Elem().Underlying().(*types.Basic); ok && eb.Kind() == types.Uint8 {
			return &JNode{Kind: jStr, S: ghostStr("b64std", strOfSlice(in, s))}, nil
		}
		n := &JNode{Kind: jArr}
		for _, e := range s.Data {
			c, err := in.toJSON(e, ut.Elem())
			if err != nil {
				return nil, err
			}
			n.Elems = append(n.Elems, c)
		}
		return n, nil
	case *types.Array:
		n := &JNode{Kind: jArr}
		for _, e := range v.(Array) {
			c, err := in.toJSON(e, ut.Elem())
			if err != nil {
				return nil, err
			}
			n.Elems = append(n.Elems, c)
		}
		return n, nil
	case *types.Interface:
		iv := v.(Iface)
		if iv.T == nil {
			return &JNode{Kind: jNull}, nil
		}
		return in.toJSON(iv.V, iv.T)
	case *types.Signature, *types.Chan:
		return nil, &jsonErr{"json: unsupported type"}
	}
	panic(engineErr("toJSON: %T of type %v", v, t))
}

func (in *Interp) isEmptyJSON(v value, t types.Type) bool {
	switch x := v.(type) {
	case *Term:
		if x.W == 0 {
			return in.branch(Not(x))
		}
		return in.branch(Eq(x, BVu(x.W, 0)))
	case *Str:
		return in.branch(Eq(in.strLen(x), BVu(64, 0)))
	case *Flt:
		return !x.IsSym && x.C == 0
	case *value:
		return x == nil
	case *Slice:
		if x.Ghost != nil {
			return false
		}
		return len(x.Data) == 0
	case *MapV:
		return x.Len() == 0
	case Iface:
		return x.T == nil
	case Array:
		return len(x) == 0
	}
	return false
}

// fromJSON decodes tree n into a value of type t (json.Unmarshal semantics); old is the current value.
func (in *Interp) fromJSON(n *JNode, t types.Type, old value) (value, *jsonErr) {
	// Unmarshaler (pointer receiver)
	if _, isIface := t.Underlying().(*types.Interface); !isIface {
		pt := types.NewPointer(t)
		if m := in.findMethod(pt, "UnmarshalJSON"); m != nil && !isNamed(t, "encoding/json", "RawMessage") {
			slot := new(value)
			if old != nil {
				*slot = copyVal(old)
			} else {
				*slot = zero(t)
			}
			arg := sliceOfStr(mkJSONBytes(n, "raw"))
			res := in.callFn(in.curFrame, 0, m, []value{slot, arg})
			if e := res.(Iface); e.T != nil {
				return nil, &jsonErr{"UnmarshalJSON failed"}
			}
			return *slot, nil
		}
	}
	if isNamed(t, "encoding/json", "RawMessage") {
		return sliceOfStr(mkJSONBytes(n, "raw")), nil
	}
	mismatch := func() (value, *jsonErr) {
		return nil, &jsonErr{fmt.Sprintf("json: cannot unmarshal %s into Go value of type %s", jsonKindName(n.Kind), t)}
	}
	switch ut := t.Underlying().(type) {
	case *types.Interface:
		if ut.NumMethods() != 0 {
			if n.Kind == jNull {
				return Iface{}, nil
			}
			return mismatch()
		}
		return in.genericJSON(n), nil
	case *types.Pointer:
		if n.Kind == jNull {
			return (*value)(nil), nil
		}
		slot := new(value)
		var cur value
		if p, ok := old.(*value); ok && p != nil {
			slot = p
			cur = *p
		}
		v, err := in.fromJSON(n, ut.Elem(), cur)
		if err != nil {
			return nil, err
		}
		if cur != nil {
			in.store(slot, v)
		} else {
			*slot = v
		}
		return slot, nil
	case *types.Basic:
		if n.Kind == jNull {
			if old != nil {
				return old, nil
			}
			return zero(t), nil
		}
		switch {
		case ut.Info()&types.IsBoolean != 0:
			if n.Kind != jBool {
				return mismatch()
			}
			return n.B, nil
		case ut.Info()&types.IsString != 0:
			if n.Kind != jStr {
				return mismatch()
			}
			return n.S, nil
		case ut.Info()&types.IsInteger != 0:
			if n.Kind != jNum {
				return mismatch()
			}
			w, signed, _ := intInfo(ut)
			if n.N.IsSym {
				if n.N.I == nil {
					panic(engineErr("fromJSON: symbolic float into integer"))
				}
				x := n.N.I
				if !signed {
					if in.branch(SLt(x, BVu(64, 0))) {
						return mismatch()
					}
				}
				if w < 64 {
					panic(engineErr("fromJSON: symbolic number into %d-bit integer", w))
				}
				return x, nil
			}
			f := n.N.C
			if f != float64(int64(f)) {
				return mismatch()
			}
			if !signed && f < 0 {
				return mismatch()
			}
			return BVi(w, int64(f)), nil
		case ut.Info()&types.IsFloat != 0:
			if n.Kind != jNum {
				return mismatch()
			}
			return n.N, nil
		}
	case *types.Struct:
		if n.Kind == jNull {
			if old != nil {
				return old, nil
			}
			return zero(t), nil
		}
		if n.Kind != jObj {
			return mismatch()
		}
		var sv Struct
		if o, ok := old.(Struct); ok {
			sv = copyVal(o).(Struct)
		} else {
			sv = zero(t).(Struct)
		}
		fields := jsonFields(ut)
		for i, k := range n.Keys {
			kc, ok := k.Concrete()
			if !ok {
				// a member with a symbolic name: could match a field; fork over fields
				matched := -1
				conds := []*Term{}
				for _, f := range fields {
					conds = append(conds, in.strEq(k, lit(f.name)))
				}
				none := []*Term{}
				for _, c := range conds {
					none = append(none, Not(c))
				}
				conds = append(conds, And(none...))
				if d := in.decide(conds); d < len(fields) {
					matched = d
				}
				if matched < 0 {
					continue
				}
				kc = fields[matched].name
			}
			var fld *jsonField
			for j := range fields {
				if fields[j].name == kc {
					fld = &fields[j]
					break
				}
			}
			if fld == nil {
				for j := range fields {
					if strings.EqualFold(fields[j].name, kc) {
						fld = &fields[j]
						break
					}
				}
			}
			if fld == nil {
				continue
			}
			// navigate to the field (allocate embedded pointers)
			cur := sv
			var slot *value
			ft := types.Type(ut)
			for d, idx := range fld.index {
				st := ft.Underlying().(*types.Struct)
				slot = &cur[idx]
				ft = st.Field(idx).Type()
				if d < len(fld.index)-1 {
					if pt, ok := ft.Underlying().(*types.Pointer); ok {
						p := (*slot).(*value)
						if p == nil {
							p = new(value)
							*p = zero(pt.Elem())
							*slot = p
						}
						cur = (*p).(Struct)
						ft = pt.Elem()
					} else {
						cur = (*slot).(Struct)
					}
				}
			}
			v, err := in.fromJSON(n.Vals[i], fld.typ, *slot)
			if err != nil {
				return nil, err
			}
			*slot = v
		}
		return sv, nil
	case *types.Map:
		if n.Kind == jNull {
			return (*MapV)(nil), nil
		}
		if n.Kind != jObj {
			return mismatch()
		}
		in.mapIDs++
		m := &MapV{KeyT: ut.Key(), id: in.mapIDs}
		if o, ok := old.(*MapV); ok && o != nil {
			m = o
		}
		for i, k := range n.Keys {
			v, err := in.fromJSON(n.Vals[i], ut.Elem(), nil)
			if err != nil {
				return nil, err
			}
			in.mapUpdate(m, k, v)
		}
		return m, nil
	case *types.Slice:
		if n.Kind == jNull {
			return &Slice{Nil: true}, nil
		}
		if eb, ok := ut.Elem().Underlying().(*types.Basic); ok && eb.Kind() == types.Uint8 {
			if n.Kind != jStr {
				return mismatch()
			}
			if n.S.Kind == sGhost && n.S.G.Ctor == "b64std" {
				return sliceOfStr(n.S.G.Args[0].(*Str)), nil
			}
			panic(engineErr("fromJSON: []byte from non-b64std string"))
		}
		if n.Kind != jArr {
			return mismatch()
		}
		data := make([]value, 0, len(n.Elems))
		for _, e := range n.Elems {
			v, err := in.fromJSON(e, ut.Elem(), nil)
			if err != nil {
				return nil, err
			}
			data = append(data, v)
		}
		return &Slice{Data: data}, nil
	case *types.Array:
		if n.Kind != jArr {
			return mismatch()
		}
		a := zero(t).(Array)
		for i, e := range n.Elems {
			if i >= len(a) {
				break
			}
			v, err := in.fromJSON(e, ut.Elem(), nil)
			if err != nil {
				return nil, err
			}
			a[i] = v
		}
		return a, nil
	}
	panic(engineErr("fromJSON into %v", t))
}

func jsonKindName(k int) string {
	return [...]string{"null", "bool", "number", "string", "array", "object"}[k]
}

// genericJSON builds the interface{} representation encoding/json produces.
func (in *Interp) genericJSON(n *JNode) value {
	switch n.Kind {
	case jNull:
		return Iface{}
	case jBool:
		return Iface{T: types.Typ[types.Bool], V: n.B}
	case jNum:
		return Iface{T: types.Typ[types.Float64], V: n.N}
	case jStr:
		return Iface{T: types.Typ[types.String], V: n.S}
	case jArr:
		data := make([]value, len(n.Elems))
		for i, e := range n.Elems {
			data[i] = in.genericJSON(e)
		}
		return Iface{T: tAnySlice, V: &Slice{Data: data}}
	case jObj:
		in.mapIDs++
		m := &MapV{KeyT: types.Typ[types.String], id: in.mapIDs}
		for i, k := range n.Keys {
			in.mapUpdate(m, k, in.genericJSON(n.Vals[i]))
		}
		return Iface{T: tAnyMap, V: m}
	}
	panic("genericJSON")
}
