package main

import (
	"encoding/hex"
	"fmt"
	"math/big"
	"os"
	"path/filepath"
	"sort"
	"strconv"
	"strings"
	"sync"
	"time"

	"golang.org/x/tools/go/packages"
	"golang.org/x/tools/go/ssa"
	"golang.org/x/tools/go/ssa/ssautil"
)

const repoMod = "github.com/trustbloc/sidetree-go"

type Engine struct {
	prog               *ssa.Program
	pkgs               []*packages.Package
	execPfx            []string
	workers            int
	solver             string
	crossDir           string
	maxPaths           int
	verbose            bool
	summariseTransform bool
}

var defaultExec = []string{
	repoMod,
	"github.com/evanphx/json-patch",
	"github.com/multiformats/go-multihash",
	"github.com/multiformats/go-varint",
	"github.com/go-jose/go-jose/v3",
	"github.com/trustbloc/did-go/doc/did", "github.com/trustbloc/did-go/vdr/api", "github.com/trustbloc/kms-go/doc/jose/jwk",
	"unicode/utf8", "unicode/utf16", "unicode", "container/list", "errors", "bytes", "strings", "sort", "slices", "cmp", "math/bits", "strconv",
	"github.com/pkg/errors", "encoding/binary", "encoding/base64", "internal/bytealg", "internal/stringslite", "math", "internal/itoa",
}

func (e *Engine) execPkg(path string) bool {
	for _, p := range e.execPfx {
		if path == p || (strings.Contains(p, ".") && strings.HasPrefix(path, p+"/")) {
			return true
		}
	}
	return false
}

// Load builds SSA for the packages under test from /repo's working tree plus the harness overlay.
func (e *Engine) Load(repo string, overlay map[string][]byte, patterns []string) error {
	cfg := &packages.Config{Mode: packages.LoadAllSyntax, Dir: repo, Overlay: overlay,
		Env: append(os.Environ(), "GOFLAGS=-mod=mod", "GOPROXY=off", "GOSUMDB=off", "GOTOOLCHAIN=local")}
	pkgs, err := packages.Load(cfg, patterns...)
	if err != nil {
		return err
	}
	nerr := 0
	packages.Visit(pkgs, nil, func(p *packages.Package) {
		for _, er := range p.Errors {
			if strings.HasPrefix(p.PkgPath, repoMod) {
				fmt.Fprintf(os.Stderr, "load error: %s: %v\n", p.PkgPath, er)
				nerr++
			}
		}
	})
	if nerr > 0 {
		return fmt.Errorf("%d load errors", nerr)
	}
	prog, _ := ssautil.AllPackages(pkgs, ssa.InstantiateGenerics)
	prog.Build()
	e.prog = prog
	e.pkgs = pkgs
	return nil
}

func (e *Engine) findFunc(pkgPath, name string) *ssa.Function {
	for _, p := range e.prog.AllPackages() {
		if p.Pkg.Path() == pkgPath {
			return p.Func(name)
		}
	}
	return nil
}

type PathResult struct {
	Trace        []int
	Status       string // ok, killed, panic, error
	Msg          string
	Events       []Event
	EvStr        []string
	Violations   []*Violation
	Inconclusive []string
	Model        []interface{}
	Steps        int64
	Blocks       int64
	Stack        []string
	Inputs       int
}

type HarnessResult struct {
	Name         string
	Pkg          string
	Paths        int
	Killed       int
	KillWhy      map[string]int // reason -> paths ended there (assume, infeasible, outside the encoding: ...)
	Panics       int
	Errors       []string
	Steps        int64
	Blocks       int64
	Queries      int
	SolverTime   time.Duration
	Violations   []*Violation
	Inconclusive []string
	Reach        map[string]*PathResult // first witness per label
	AssertsChk   int
	AssertsDis   int
	Funcs        map[string]int
	Summaries    map[string]bool
	Wall         time.Duration
	Truncated    bool
	SamplePaths  []*PathResult
	SolverErrors int
	Transcripts  []string
	WitnessRes   []WitnessResult
	VioCount     map[string]int
}

// Explore runs a harness function over all feasible paths.
func (e *Engine) Explore(fn *ssa.Function, unwind int) *HarnessResult {
	t0 := time.Now()
	res := &HarnessResult{Name: fn.Name(), Pkg: fn.Pkg.Pkg.Path(), Reach: map[string]*PathResult{}, Funcs: map[string]int{}, Summaries: map[string]bool{}, VioCount: map[string]int{}}
	var mu sync.Mutex
	queue := [][]int{{}}
	active := 0
	cond := sync.NewCond(&mu)
	var wg sync.WaitGroup
	done := make(chan struct{})
	go func() {
		tk := time.NewTicker(10 * time.Second)
		defer tk.Stop()
		for {
			select {
			case <-done:
				return
			case <-tk.C:
				mu.Lock()
				fmt.Fprintf(os.Stderr, "  ... %s: %d paths, queue %d, active %d, steps %d, violations %d, errors %d (%.0fs)\n", fn.Name(), res.Paths, len(queue), active, res.Steps, len(res.Violations), len(res.Errors), time.Since(t0).Seconds())
				mu.Unlock()
			}
		}
	}()
	for w := 0; w < e.workers; w++ {
		wg.Add(1)
		go func(w int) {
			defer wg.Done()
			transcript := ""
			if e.crossDir != "" {
				transcript = filepath.Join(e.crossDir, fmt.Sprintf("%s_w%d.smt2", fn.Name(), w))
			}
			sol, err := NewSolver(e.solver, transcript)
			if err != nil {
				mu.Lock()
				res.Errors = append(res.Errors, "solver start: "+err.Error())
				mu.Unlock()
				return
			}
			defer func() {
				sol.Close()
				mu.Lock()
				res.Queries += sol.Queries
				res.SolverTime += sol.Time
				res.SolverErrors += sol.Errors
				if transcript != "" {
					res.Transcripts = append(res.Transcripts, transcript)
				}
				mu.Unlock()
			}()
			for {
				mu.Lock()
				for len(queue) == 0 && active > 0 {
					cond.Wait()
				}
				if len(queue) == 0 || (e.maxPaths > 0 && res.Paths >= e.maxPaths) {
					if len(queue) > 0 {
						res.Truncated = true
					}
					queue = nil
					mu.Unlock()
					cond.Broadcast()
					return
				}
				prefix := queue[len(queue)-1]
				queue = queue[:len(queue)-1]
				active++
				mu.Unlock()

				if sol.Dead || (sol.Paths >= 1500 && transcript == "") {
					// fresh solver process: keeps incremental state small, replaces a hung one
					old := sol
					ns, err := NewSolver(e.solver, "")
					if err == nil {
						old.Close()
						mu.Lock()
						res.Queries += old.Queries
						res.SolverTime += old.Time
						res.SolverErrors += old.Errors
						mu.Unlock()
						sol = ns
					}
				}
				sol.Paths++
				pr, forks, in := e.runPath(fn, prefix, sol, unwind)
				if sol.Dead {
					// the solver hung or died inside this path: retry once on a fresh process
					if ns, err := NewSolver(e.solver, ""); err == nil {
						sol.Close()
						sol = ns
						pr, forks, in = e.runPath(fn, prefix, sol, unwind)
					}
				}

				mu.Lock()
				active--
				queue = append(queue, forks...)
				res.Paths++
				res.Steps += pr.Steps
				res.Blocks += pr.Blocks
				res.AssertsChk += in.assertsChecked
				res.AssertsDis += in.assertsDischarged
				for f := range in.funcsSeen {
					res.Funcs[f.String()] = countInstrs(f)
				}
				for s := range in.summUsed {
					res.Summaries[s] = true
				}
				switch pr.Status {
				case "killed":
					res.Killed++
					if res.KillWhy == nil {
						res.KillWhy = map[string]int{}
					}
					res.KillWhy[pr.Msg]++
				case "panic":
					res.Panics++
				case "error":
					res.Errors = append(res.Errors, pr.Msg)
				}
				for _, v := range pr.Violations {
					res.VioCount[v.Label]++
					if res.VioCount[v.Label] <= 3 {
						res.Violations = append(res.Violations, v)
					} else {
						// keep the three counterexamples that are cheapest to reproduce natively (fewest leading-zero
						// bytes demanded of random keys and signatures)
						worst, wc := -1, replayCost(v)
						for i, o := range res.Violations {
							if o.Label == v.Label {
								if c := replayCost(o); c > wc {
									worst, wc = i, c
								}
							}
						}
						if worst >= 0 {
							res.Violations[worst] = v
						}
					}
				}
				res.Inconclusive = append(res.Inconclusive, pr.Inconclusive...)
				if pr.Status == "ok" || pr.Status == "panic" {
					for _, ev := range pr.Events {
						if ev.Kind == "reach" {
							// the witness replayed natively is the one that is cheapest to reproduce (fewest leading-zero
							// bytes asked of random keys and signatures)
							if cur, have := res.Reach[ev.Label]; pr.Model != nil && (!have || modelCost(pr.Model) < modelCost(cur.Model)) {
								res.Reach[ev.Label] = pr
							}
						}
					}
					if len(res.SamplePaths) < 3 && pr.Model != nil {
						res.SamplePaths = append(res.SamplePaths, pr)
					}
				}
				if e.verbose {
					fmt.Fprintf(os.Stderr, "  path %d %v: %s %s (%d steps) %v\n", res.Paths, pr.Trace, pr.Status, pr.Msg, pr.Steps, pr.EvStr)
				}
				mu.Unlock()
				cond.Broadcast()
			}
		}(w)
	}
	wg.Wait()
	close(done)
	res.Wall = time.Since(t0)
	return res
}

func countInstrs(f *ssa.Function) int {
	n := 0
	for _, b := range f.Blocks {
		n += len(b.Instrs)
	}
	return n
}

func (e *Engine) newInterp(sol *Solver, prefix []int, unwind int, harness string) *Interp {
	return &Interp{prog: e.prog, eng: e, sol: sol, prefix: prefix, globals: map[*ssa.Global]*value{}, initDone: map[*ssa.Package]bool{},
		frozen: map[*value]string{}, litIdx: map[string]int{}, glen: map[string]*Term{}, fresh: map[string]*Term{}, unwind: unwind,
		funcsSeen: map[*ssa.Function]bool{}, summUsed: map[string]bool{}, harness: harness, extra: map[string]interface{}{}}
}

func (e *Engine) runPath(fn *ssa.Function, prefix []int, sol *Solver, unwind int) (pr *PathResult, forks [][]int, in *Interp) {
	in = e.newInterp(sol, prefix, unwind, fn.Name())
	pr = &PathResult{}
	sol.Push()
	defer func() {
		if r := recover(); r != nil {
			switch x := r.(type) {
			case pathKilled:
				pr.Status = "killed"
				pr.Msg = x.why
			case targetPanic:
				pr.Status = "panic"
				pr.Msg = x.Msg
				pr.Stack = in.errStack
				where := in.errWhere
				if where == "" {
					where = "?"
				}
				if !in.expectPanic {
					v := &Violation{Harness: in.harness, Label: "panic:" + where, Kind: "panic", Msg: x.Msg, Trace: append([]int{}, in.trace...), Stack: pr.Stack}
					in.events = append(in.events, Event{Kind: "panic", Label: x.Msg})
					if r, _ := sol.Check(); r == Sat {
						in.captureModel(v, nil)
					}
					in.violations = append(in.violations, v)
				}
			case *EngineError:
				pr.Status = "error"
				pr.Msg = x.Msg + " @ " + strings.Join(in.errStack, " <- ")
			default:
				pr.Status = "error"
				pr.Msg = fmt.Sprintf("engine crash: %v @ %s", r, strings.Join(in.stack(), " <- "))
				if e.verbose {
					panic(r)
				}
			}
		}
		if pr.Status == "ok" || pr.Status == "panic" {
			// model of the path for witness replay; frozen-write violations get their model here too
			if r, _ := sol.Check(); r == Sat {
				if m, err := in.modelValues(); err == nil {
					pr.Model = m
					for _, v := range in.violations {
						if v.Model == nil {
							v.Model = m
						}
					}
				}
			}
		}
		sol.Pop()
		pr.Trace = in.trace
		pr.Events = in.events
		pr.EvStr = in.eventStrings()
		pr.Violations = in.violations
		for _, v := range pr.Violations {
			v.Events = pr.EvStr
		}
		pr.Inconclusive = in.inconclusive
		pr.Steps = in.steps
		pr.Blocks = in.blocks
		pr.Inputs = len(in.inputs)
		forks = in.forks
	}()
	in.callFn(nil, 0, fn, nil)
	pr.Status = "ok"
	return
}

// modelValues: concrete native values of all inputs (creation order); must follow a Sat answer.
func (in *Interp) modelValues() ([]interface{}, error) {
	var names []string
	for _, inp := range in.inputs {
		for _, t := range inp.Terms {
			names = append(names, t.S)
		}
		if inp.Kind == "atom" {
			id := inp.Terms[0].S
			names = append(names, "(alen "+id+")")
			for k := range in.lits {
				names = append(names, fmt.Sprintf("(alit %s %d)", id, k))
			}
		}
	}
	vals := map[string]string{}
	if len(names) > 0 {
		var err error
		vals, err = in.sol.GetValues(names)
		if err != nil {
			return nil, err
		}
	}
	get := func(n string) *big.Int {
		v, ok := vals[n]
		if !ok {
			// solvers may normalise the term text; try whitespace-insensitive match
			for k, vv := range vals {
				if strings.Join(strings.Fields(k), " ") == strings.Join(strings.Fields(n), " ") {
					v, ok = vv, true
					break
				}
			}
		}
		if !ok {
			return big.NewInt(0)
		}
		x, ok := parseValue(v)
		if !ok {
			return big.NewInt(0)
		}
		return x
	}
	// atom ranks for short unique strings
	atomStr := map[string]string{}
	var ids []string
	for _, inp := range in.inputs {
		if inp.Kind == "atom" {
			ids = append(ids, get(inp.Terms[0].S).Text(16))
		}
	}
	sort.Strings(ids)
	rank := map[string]int{}
	for _, id := range ids {
		if _, ok := rank[id]; !ok {
			rank[id] = len(rank)
		}
	}
	out := []interface{}{}
	for _, inp := range in.inputs {
		e := map[string]string{"k": inp.Kind, "n": inp.Name}
		switch inp.Kind {
		case "bool":
			e["v"] = get(inp.Terms[0].S).String()
		case "u64":
			e["v"] = get(inp.Terms[0].S).String()
		case "bytes":
			b := make([]byte, len(inp.Terms))
			for i, t := range inp.Terms {
				b[i] = byte(get(t.S).Uint64())
			}
			e["v"] = hex.EncodeToString(b)
		case "choose", "until":
			e["v"] = fmt.Sprint(inp.N)
		case "lz":
			n := 0
			for _, t := range inp.Terms {
				if t.Const {
					if t.Uint() != 0 {
						break
					}
				} else if get(t.S).Sign() != 0 {
					break
				}
				n++
			}
			e["v"] = fmt.Sprint(n)
		case "atom":
			id := inp.Terms[0].S
			idv := get(id).Text(16)
			s, done := atomStr[idv]
			if !done {
				found := false
				for k, l := range in.lits {
					if get(fmt.Sprintf("(alit %s %d)", id, k)).Sign() != 0 {
						s, found = l, true
						break
					}
				}
				if !found {
					L := int(get("(alen " + id + ")").Uint64())
					if L > 4096 {
						L = 4096
					}
					s = atomName(rank[idv], L)
				}
				atomStr[idv] = s
			}
			e["v"] = hex.EncodeToString([]byte(s))
		}
		out = append(out, e)
	}
	return out, nil
}

func atomName(rank, L int) string {
	if L == 0 {
		return ""
	}
	digits := ""
	r := rank
	for {
		digits = string(rune('a'+r%26)) + digits
		r /= 26
		if r == 0 {
			break
		}
	}
	for len(digits) < L {
		digits = "Z" + digits
	}
	if len(digits) > L {
		digits = digits[len(digits)-L:]
	}
	return digits
}

func (in *Interp) eventStrings() []string {
	var out []string
	for _, ev := range in.events {
		switch ev.Kind {
		case "reach":
			out = append(out, "reach:"+ev.Label)
		case "assert-fail":
			out = append(out, "assert-fail:"+ev.Label)
		case "panic":
			out = append(out, "panic:"+ev.Label)
		case "obs":
			o := "obs:" + ev.Label
			for _, v := range ev.Vals {
				o += " " + in.describe(v)
			}
			out = append(out, o)
		}
	}
	return out
}

// replayCost: how rare the native values are that a counterexample's model asks for.
func replayCost(v *Violation) int { return modelCost(v.Model) }

func modelCost(model []interface{}) int {
	c := 0
	for _, e := range model {
		if m, ok := e.(map[string]string); ok && m["k"] == "lz" {
			n, _ := strconv.Atoi(m["v"])
			c += n
		}
	}
	return c
}
