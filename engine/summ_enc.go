package main

import (
	"encoding/base64"
	"fmt"
	"go/types"
	"strings"

	"golang.org/x/tools/go/ssa"
)

type hasherState struct {
	alg string
	buf *Str
}

func (in *Interp) namedType(pkg, name string) types.Type {
	p := in.prog.ImportedPackage(pkg)
	if p == nil {
		panic(engineErr("package %s not loaded", pkg))
	}
	m := p.Members[name]
	if m == nil {
		panic(engineErr("type %s.%s not found", pkg, name))
	}
	return m.Type()
}

func (in *Interp) globalVar(pkg, name string) *value {
	p := in.prog.ImportedPackage(pkg)
	if p == nil {
		panic(engineErr("package %s not loaded", pkg))
	}
	return in.global(p.Var(name))
}

func (in *Interp) b64Kind(recv value) string {
	p, _ := recv.(*value)
	for _, n := range []string{"RawURLEncoding", "URLEncoding", "StdEncoding", "RawStdEncoding"} {
		g := in.globalVar("encoding/base64", n)
		if gp, ok := (*g).(*value); ok && gp == p && p != nil {
			return n
		}
	}
	panic(engineErr("unknown base64 encoding receiver"))
}

func nativeB64(kind string) *base64.Encoding {
	switch kind {
	case "RawURLEncoding":
		return base64.RawURLEncoding
	case "URLEncoding":
		return base64.URLEncoding
	case "StdEncoding":
		return base64.StdEncoding
	}
	return base64.RawStdEncoding
}

func (in *Interp) b64Encode(kind string, x *Str) *Str {
	if c, ok := x.Concrete(); ok {
		return lit(nativeB64(kind).EncodeToString([]byte(c)))
	}
	if kind == "RawURLEncoding" {
		if x.Kind == sGhost && x.G.Ctor == "casevar" {
			return ghostStr("b64case", x.G.Args[0].(*Str)) // re-encoding the bytes of a case variant gives that text back
		}
		return ghostStr("b64", x)
	}
	return ghostStr("b64x", x, kind)
}

// b64Decode returns (decoded, ok)
func (in *Interp) b64Decode(kind string, s *Str) (*Str, bool) {
	switch s.Kind {
	case sBytes:
		c, ok := s.Concrete()
		if !ok {
			// byte-precise symbolic text: well-formedness is an uninterpreted predicate of the text, the
			// decoded bytes are opaque
			in.summUsed["assumption: base64 well-formedness of symbolic text is uninterpreted; decoded bytes opaque"] = true
			if in.branch(in.freshBool("b64ok:" + s.Key())) {
				return ghostStr("garbage", s), true
			}
			return nil, false
		}
		b, err := nativeB64(kind).DecodeString(c)
		if err != nil {
			return nil, false
		}
		return lit(string(b)), true
	case sGhost:
		if s.G.Ctor == "b64" && kind == "RawURLEncoding" {
			return s.G.Args[0].(*Str), true
		}
		if s.G.Ctor == "b64x" && s.G.Args[1].(string) == kind {
			return s.G.Args[0].(*Str), true
		}
		if s.G.Ctor == "b64alt" && kind == "RawURLEncoding" {
			return s.G.Args[0].(*Str), true // non-canonical text, same bytes (the decoder ignores unused low bits)
		}
		if s.G.Ctor == "b64case" && kind == "RawURLEncoding" {
			return ghostStr("casevar", s.G.Args[0].(*Str)), true // other bytes of the same length (prefix of 2 bytes kept)
		}
		if s.G.Ctor == "malformed" {
			return nil, false
		}
		// other encoder output fed to a base64 decoder (e.g. canonical JSON text): not base64
		if s.G.Ctor == "json" || s.G.Ctor == "canon" {
			return nil, false
		}
		panic(engineErr("base64 decoding of %s ghost", s.G.Ctor))
	case sAtom:
		// atoms are letter strings: inside the alphabet; only the length class 4k+1 is malformed
		if in.branch(Eq(URem(alen(s.Atom), BVu(64, 4)), BVu(64, 1))) {
			return nil, false
		}
		return ghostStr("garbage", s), true
	case sConcat:
		// an encoder output followed/preceded by extra literal text
		for _, p := range s.Parts {
			if c, ok := p.Concrete(); ok {
				for i := 0; i < len(c); i++ {
					if !strings.ContainsRune("ABCDEFGHIJKLMNOPQRSTUVWXYZabcdefghijklmnopqrstuvwxyz0123456789-_", rune(c[i])) {
						return nil, false // padding or any other character outside the raw URL alphabet
					}
				}
			}
		}
		// still inside the alphabet: decodes to some other byte string (not the original)
		return ghostStr("garbage", s), true
	}
	return nil, false
}

func (in *Interp) okBytes(s *Str) value { return Tuple{sliceOfStr(s), Iface{}} }

func init() {
	reg("(*encoding/base64.Encoding).EncodeToString", func(in *Interp, fn *ssa.Function, args []value) (value, bool) {
		return in.b64Encode(in.b64Kind(args[0]), strOfSlice(in, args[1].(*Slice))), true
	})
	reg("(*encoding/base64.Encoding).DecodeString", func(in *Interp, fn *ssa.Function, args []value) (value, bool) {
		d, ok := in.b64Decode(in.b64Kind(args[0]), args[1].(*Str))
		if !ok {
			return Tuple{&Slice{Nil: true}, in.mkErrorf("illegal base64 data")}, true
		}
		return in.okBytes(d), true
	})

	// ---- encoding/json ----
	marshal := func(in *Interp, fn *ssa.Function, args []value) (value, bool) {
		tree, err := in.toJSON(args[0], nil)
		if err != nil {
			return Tuple{&Slice{Nil: true}, in.mkErrorf("json: %s", err.msg)}, true
		}
		if txt, ok := renderJSON(tree, false); ok && !hasNumber(tree) {
			return in.okBytes(lit(txt)), true
		}
		return in.okBytes(mkJSONBytes(tree, "go")), true
	}
	unmarshal := func(in *Interp, fn *ssa.Function, args []value) (value, bool) {
		data := strOfSlice(in, args[0].(*Slice))
		target := args[1].(Iface)
		tree, ok := in.bytesToTree(data)
		if !ok {
			return in.mkErrorf("invalid character looking for beginning of value"), true
		}
		pt, isPtr := target.T.Underlying().(*types.Pointer)
		p, _ := target.V.(*value)
		if !isPtr || p == nil {
			return in.mkErrorf("json: Unmarshal(non-pointer or nil)"), true
		}
		v, jerr := in.fromJSON(tree, pt.Elem(), *p)
		if jerr != nil {
			return in.mkErrorf("%s", jerr.msg), true
		}
		in.store(p, v)
		return Iface{}, true
	}
	for _, pkg := range []string{"encoding/json", "github.com/go-jose/go-jose/v3/json"} {
		reg(pkg+".Marshal", marshal)
		reg(pkg+".Unmarshal", unmarshal)
	}
	// json.NewEncoder(w).Encode(v): the Marshal text and a newline, written to w with one Write call
	reg("encoding/json.NewEncoder", func(in *Interp, fn *ssa.Function, args []value) (value, bool) {
		var enc value = Struct{args[0]}
		return &enc, true
	})
	reg("(*encoding/json.Encoder).Encode", func(in *Interp, fn *ssa.Function, args []value) (value, bool) {
		w := (*(args[0].(*value))).(Struct)[0].(Iface)
		if w.T == nil {
			panic(targetPanic{Msg: "nil pointer dereference (Encode to nil writer)"})
		}
		res, _ := marshal(in, fn, []value{args[1]})
		tup := res.(Tuple)
		if e, isErr := tup[1].(Iface); isErr && e.T != nil {
			return e, true
		}
		m := in.findMethod(w.T, "Write")
		if m == nil {
			panic(engineErr("Encode: writer %v has no Write method", w.T))
		}
		out := in.callFn(in.curFrame, 0, m, []value{w.V, sliceOfStr(concatStr(strOfSlice(in, tup[0].(*Slice)), lit("\n")))})
		return out.(Tuple)[1], true
	})
	reg("encoding/json.Valid", func(in *Interp, fn *ssa.Function, args []value) (value, bool) {
		_, ok := in.bytesToTree(strOfSlice(in, args[0].(*Slice)))
		return Bool(ok), true
	})

	// ---- canonicalizer (repo code): summarised only on ghost input (assume-guarantee with C05) ----
	reg(repoMod+"/pkg/internal/jsoncanonicalizer.Transform", func(in *Interp, fn *ssa.Function, args []value) (value, bool) {
		s := strOfSlice(in, args[0].(*Slice))
		if s.Kind == sBytes {
			return nil, false // byte-precise input: execute the real code
		}
		tree, ok := in.bytesToTree(s)
		if !ok {
			return Tuple{&Slice{Nil: true}, in.mkErrorf("not JSON")}, true
		}
		if tree.Kind != jObj && tree.Kind != jArr {
			// Transform panics/errs on non-container top level: leave to real code when concrete
			return Tuple{&Slice{Nil: true}, in.mkErrorf("not an object or array")}, true
		}
		return in.okBytes(mkJSONBytes(tree, "canon")), true
	})

	// ---- hashes ----
	reg("(crypto.Hash).Available", func(in *Interp, fn *ssa.Function, args []value) (value, bool) {
		h := args[0].(*Term)
		if !h.Const {
			panic(engineErr("symbolic crypto.Hash"))
		}
		switch h.Uint() {
		case 5, 6, 7: // SHA256, SHA384, SHA512
			return tTrue, true
		}
		return tFalse, true
	})
	reg("(crypto.Hash).HashFunc", func(in *Interp, fn *ssa.Function, args []value) (value, bool) { return args[0], true })
	reg("(crypto.Hash).New", func(in *Interp, fn *ssa.Function, args []value) (value, bool) {
		h := args[0].(*Term)
		if !h.Const {
			panic(engineErr("symbolic crypto.Hash"))
		}
		var alg, pkg string
		switch h.Uint() {
		case 5:
			alg, pkg = "sha256", "crypto/sha256"
		case 6:
			alg, pkg = "sha384", "crypto/sha512"
		case 7:
			alg, pkg = "sha512", "crypto/sha512"
		default:
			panic(targetPanic{Msg: "crypto: requested hash function is unavailable"})
		}
		slot := new(value)
		*slot = &hasherState{alg: alg, buf: emptyStr}
		return Iface{T: types.NewPointer(in.namedType(pkg, "digest")), V: slot}, true
	})
	hs := func(v value) *hasherState { return (*(v.(*value))).(*hasherState) }
	for _, pkg := range []string{"crypto/sha256", "crypto/sha512"} {
		reg("(*"+pkg+".digest).Write", func(in *Interp, fn *ssa.Function, args []value) (value, bool) {
			st := hs(args[0])
			in.schedEvent("write", args[0].(*value))
			data := args[1].(*Slice)
			st.buf = concatStr(st.buf, strOfSlice(in, data))
			n := in.strLen(strOfSlice(in, data))
			return Tuple{n, Iface{}}, true
		})
		reg("(*"+pkg+".digest).Sum", func(in *Interp, fn *ssa.Function, args []value) (value, bool) {
			st := hs(args[0])
			in.schedEvent("read", args[0].(*value))
			d := mkSha(st.alg, st.buf)
			pre := args[1].(*Slice)
			if pre.Ghost == nil && len(pre.Data) == 0 {
				return sliceOfStr(d), true
			}
			return sliceOfStr(concatStr(strOfSlice(in, pre), d)), true
		})
		reg("(*"+pkg+".digest).Reset", func(in *Interp, fn *ssa.Function, args []value) (value, bool) {
			in.schedEvent("write", args[0].(*value))
			hs(args[0]).buf = emptyStr
			return nil, true
		})
	}
	sumArray := func(alg string, n int) summaryFn {
		return func(in *Interp, fn *ssa.Function, args []value) (value, bool) {
			d := mkSha(alg, strOfSlice(in, args[0].(*Slice)))
			a := make(Array, n)
			if d.Kind == sBytes {
				for i := range a {
					a[i] = d.B[i]
				}
				return a, true
			}
			// opaque digest as a fixed-size array: one fresh byte symbol per position, the same symbols for
			// the same data (functional; injectivity is not modelled for array digests)
			key := "digestarray:" + d.Key()
			bs, ok := in.extra[key].([]*Term)
			if !ok {
				for i := 0; i < n; i++ {
					bs = append(bs, in.newSym(8, fmt.Sprintf("digest%d", i)))
				}
				in.extra[key] = bs
			}
			for i := range a {
				a[i] = bs[i]
			}
			return a, true
		}
	}
	reg("crypto/sha256.Sum256", sumArray("sha256", 32))
	reg("crypto/sha512.Sum512", sumArray("sha512", 64))
	reg("crypto/sha512.Sum384", sumArray("sha384", 48))

	// ---- go-multihash on ghost digests ----
	mhPkg := "github.com/multiformats/go-multihash"
	reg(mhPkg+".Encode", func(in *Interp, fn *ssa.Function, args []value) (value, bool) {
		buf := args[0].(*Slice)
		code := args[1].(*Term)
		if buf.Ghost == nil {
			return nil, false
		}
		codes := (*in.globalVar(mhPkg, "Codes")).(*MapV)
		if in.mapFind(codes, code) == nil {
			errUnknown := in.load(in.globalVar(mhPkg, "ErrUnknownCode"))
			return Tuple{&Slice{Nil: true}, errUnknown}, true
		}
		return in.okBytes(mkMh(code, buf.Ghost)), true
	})
	reg(mhPkg+".MHFromBytes", func(in *Interp, fn *ssa.Function, args []value) (value, bool) {
		buf := args[0].(*Slice)
		if buf.Ghost == nil {
			return nil, false
		}
		g := buf.Ghost
		if g.Kind == sGhost && g.G.Ctor == "casevar" {
			if inner := g.G.Args[0].(*Str); inner.Kind == sGhost && inner.G.Ctor == "mh" {
				return Tuple{in.strLen(g), buf, Iface{}}, true
			}
		}
		if g.Kind != sGhost || g.G.Ctor != "mh" {
			return Tuple{BVi(64, 0), &Slice{Nil: true}, in.mkErrorf("multihash: not a well-formed multihash (idealised)")}, true
		}
		return Tuple{in.strLen(g), buf, Iface{}}, true // a well-formed multihash is read completely
	})
	reg(mhPkg+".Decode", func(in *Interp, fn *ssa.Function, args []value) (value, bool) {
		buf := args[0].(*Slice)
		if buf.Ghost == nil {
			return nil, false
		}
		g := buf.Ghost
		caseVar := false
		if g.Kind == sGhost && g.G.Ctor == "casevar" {
			// a multihash whose text had one letter's case changed behind the prefix: same code and length, other digest
			if inner := g.G.Args[0].(*Str); inner.Kind == sGhost && inner.G.Ctor == "mh" {
				g, caseVar = inner, true
			}
		}
		if g.Kind != sGhost || g.G.Ctor != "mh" {
			// any other opaque byte string: idealised as not being a well-formed multihash
			return Tuple{(*value)(nil), in.mkErrorf("multihash: not a well-formed multihash (idealised)")}, true
		}
		code := g.G.Args[0].(*Term)
		digest := g.G.Args[1].(*Str)
		if caseVar {
			digest = ghostStr("casedig", digest)
		}
		codes := (*in.globalVar(mhPkg, "Codes")).(*MapV)
		name := value(emptyStr)
		if e := in.mapFind(codes, code); e != nil {
			name = e.V
		}
		slot := new(value)
		*slot = Struct{code, name, in.strLen(digest), sliceOfStr(digest)}
		return Tuple{slot, Iface{}}, true
	})
}
