package main

import (
	"fmt"
	"strings"
	"go/types"

	"golang.org/x/tools/go/ssa"
)

// insertion sort exactly as sort.insertionSort_func (pdqsort uses it for n <= 12, stable for n <= 20)
func (in *Interp) insertionSort(n int, less func(i, j int) bool, swap func(i, j int)) {
	for i := 1; i < n; i++ {
		for j := i; j > 0 && less(j, j-1); j-- {
			swap(j, j-1)
		}
	}
}

func init() {
	sortSlice := func(limit int) summaryFn {
		return func(in *Interp, fn *ssa.Function, args []value) (value, bool) {
			iv := args[0].(Iface)
			s, ok := iv.V.(*Slice)
			if !ok {
				panic(targetPanic{Msg: "sort.Slice: not a slice"})
			}
			n := len(s.Data)
			if n > limit {
				panic(engineErr("sort.Slice with %d elements: beyond the insertion-sort bound %d", n, limit))
			}
			lessFn := args[1]
			in.insertionSort(n, func(i, j int) bool {
				r := in.call(in.curFrame, 0, lessFn, []value{BVu(64, uint64(i)), BVu(64, uint64(j))})
				return in.branch(r.(*Term))
			}, func(i, j int) {
				a, b := copyVal(s.Data[i]), copyVal(s.Data[j])
				in.store(&s.Data[i], b)
				in.store(&s.Data[j], a)
			})
			return nil, true
		}
	}
	reg("sort.Slice", sortSlice(12))
	reg("sort.SliceStable", sortSlice(20))
	reg("sort.Strings", func(in *Interp, fn *ssa.Function, args []value) (value, bool) {
		s := args[0].(*Slice)
		n := len(s.Data)
		if n > 12 {
			panic(engineErr("sort.Strings with %d elements", n))
		}
		in.insertionSort(n, func(i, j int) bool {
			return in.branch(in.strCompare(40 /*token.LSS*/, s.Data[i].(*Str), s.Data[j].(*Str)))
		}, func(i, j int) {
			a, b := s.Data[i], s.Data[j]
			in.store(&s.Data[i], b)
			in.store(&s.Data[j], a)
		})
		return nil, true
	})

	// ---- time ----
	reg("time.Unix", func(in *Interp, fn *ssa.Function, args []value) (value, bool) {
		t := zero(fn.Signature.Results().At(0).Type()).(Struct)
		t[1] = args[0] // ext: seconds
		return t, true
	})
	reg("(time.Time).UTC", func(in *Interp, fn *ssa.Function, args []value) (value, bool) { return args[0], true })
	reg("(time.Time).Format", func(in *Interp, fn *ssa.Function, args []value) (value, bool) {
		t := args[0].(Struct)
		return ghostStr("timefmt", t[1].(*Term), args[1].(*Str)), true
	})
	reg("(time.Time).Unix", func(in *Interp, fn *ssa.Function, args []value) (value, bool) {
		return args[0].(Struct)[1], true
	})
	reg("time.Now", func(in *Interp, fn *ssa.Function, args []value) (value, bool) {
		t := zero(fn.Signature.Results().At(0).Type()).(Struct)
		t[1] = in.newSym(64, "now")
		return t, true
	})

	// ---- sync (outside C20: no-ops) ----
	for _, n := range []string{"(*sync.RWMutex).RLock", "(*sync.RWMutex).RUnlock", "(*sync.RWMutex).Lock", "(*sync.RWMutex).Unlock",
		"(*sync.Mutex).Lock", "(*sync.Mutex).Unlock"} {
		name := n
		reg(name, func(in *Interp, fn *ssa.Function, args []value) (value, bool) {
			if in.sched != nil {
				kind := map[string]string{"RLock": "rlock", "RUnlock": "runlock", "Lock": "lock", "Unlock": "unlock"}[name[strings.LastIndex(name, ".")+1:]]
				in.schedEvent(kind, args[0])
			}
			return nil, true
		})
	}
	reg("(*sync.Once).Do", func(in *Interp, fn *ssa.Function, args []value) (value, bool) {
		p := args[0].(*value)
		if _, done := (*p).(bool); !done {
			*p = true
			in.call(in.curFrame, 0, args[1], nil)
		}
		return nil, true
	})
}

var _ = types.Typ

func init() {
	reg("github.com/btcsuite/btcutil/base58.Encode", func(in *Interp, fn *ssa.Function, args []value) (value, bool) {
		return ghostStr("b58", strOfSlice(in, args[0].(*Slice))), true
	})
	reg("github.com/multiformats/go-multibase.Encode", func(in *Interp, fn *ssa.Function, args []value) (value, bool) {
		return Tuple{concatStr(lit("z"), ghostStr("b58", strOfSlice(in, args[1].(*Slice)))), Iface{}}, true
	})
}

func init() {
	// reflect.TypeOf is only met in error texts (go-jose: "unknown key type '%s'"); nil stays nil, anything else is
	// an opaque type description
	reg("reflect.TypeOf", func(in *Interp, fn *ssa.Function, args []value) (value, bool) {
		if i, ok := args[0].(Iface); ok && i.T == nil {
			return Iface{}, true
		}
		return Iface{T: types.Typ[types.String], V: lit("<type>")}, true
	})
}

// ---- sync.Pool and sync.Map ----
// A pool is a bag of items; Get takes the most recently Put item if there is one (in a Concurrent experiment that may
// be an item another call has put: Put happens before that Get, and the item is shared state from then on), otherwise
// it calls New. A sync.Map is an internally synchronised map: its operations are atomic and never race.

type poolItem struct {
	v           value
	thread, idx int
}

func init() {
	poolKey := func(p value) string { return fmt.Sprintf("pool:%p", p.(*value)) }
	reg("(*sync.Pool).Put", func(in *Interp, fn *ssa.Function, args []value) (value, bool) {
		k := poolKey(args[0])
		items, _ := in.extra[k].([]poolItem)
		t, i := in.schedSync("pool-put", args[0])
		if in.sched != nil {
			in.schedMark(args[1], "object handed to a sync.Pool")
		}
		in.extra[k] = append(items, poolItem{v: args[1], thread: t, idx: i})
		return nil, true
	})
	reg("(*sync.Pool).Get", func(in *Interp, fn *ssa.Function, args []value) (value, bool) {
		k := poolKey(args[0])
		items, _ := in.extra[k].([]poolItem)
		if n := len(items); n > 0 {
			it := items[n-1]
			in.extra[k] = items[:n-1]
			t, i := in.schedSync("pool-get", args[0])
			if t >= 0 && it.thread >= 0 && it.thread != t {
				in.sched.hb = append(in.sched.hb, [4]int{it.thread, it.idx, t, i})
			}
			return it.v, true
		}
		pool := (*(args[0].(*value))).(Struct)
		newFn := pool[len(pool)-1] // New func() any is the last field
		if c, ok := newFn.(*Closure); ok && c != nil {
			return in.call(in.curFrame, 0, c, nil), true
		}
		if f, ok := newFn.(*ssa.Function); ok && f != nil {
			return in.call(in.curFrame, 0, f, nil), true
		}
		return Iface{}, true
	})

	// the content of a sync.Map is an ordinary symbolic map keyed by interface values: lookups with symbolic keys
	// fork on key equality exactly as those of a Go map do
	mapKey := func(p value) string { return fmt.Sprintf("syncmap:%p", p.(*value)) }
	content := func(in *Interp, p value) *MapV {
		k := mapKey(p)
		m, _ := in.extra[k].(*MapV)
		if m == nil {
			m = &MapV{KeyT: types.NewInterfaceType(nil, nil)}
			in.extra[k] = m
		}
		return m
	}
	reg("(*sync.Map).Load", func(in *Interp, fn *ssa.Function, args []value) (value, bool) {
		if e := in.mapFind(content(in, args[0]), args[1]); e != nil {
			return Tuple{e.V, tTrue}, true
		}
		return Tuple{Iface{}, tFalse}, true
	})
	reg("(*sync.Map).Store", func(in *Interp, fn *ssa.Function, args []value) (value, bool) {
		in.mapUpdate(content(in, args[0]), args[1], args[2])
		return nil, true
	})
	reg("(*sync.Map).LoadOrStore", func(in *Interp, fn *ssa.Function, args []value) (value, bool) {
		m := content(in, args[0])
		if e := in.mapFind(m, args[1]); e != nil {
			return Tuple{e.V, tTrue}, true
		}
		m.Entries = append(m.Entries, &MapEntry{K: args[1], V: args[2]})
		return Tuple{args[2], tFalse}, true
	})
	reg("(*sync.Map).Delete", func(in *Interp, fn *ssa.Function, args []value) (value, bool) {
		in.mapDelete(content(in, args[0]), args[1])
		return nil, true
	})
}
