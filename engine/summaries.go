package main

import (
	"go/types"
	"strings"

	"golang.org/x/tools/go/ssa"
)

// a summary may decline (ok=false): the callee is then executed from its SSA body
type summaryFn func(in *Interp, fn *ssa.Function, args []value) (v value, ok bool)

var summaries = map[string]summaryFn{}

// packages whose functions are no-ops returning zero values (logging)
var noopPkgs = []string{
	repoMod + "/pkg/log", repoMod + "/pkg/internal/log", "log/slog", "log",
}

func isNoopPkg(path string) bool {
	for _, p := range noopPkgs {
		if path == p {
			return true
		}
	}
	return false
}

func zeroResult(fn *ssa.Function) value {
	res := fn.Signature.Results()
	switch res.Len() {
	case 0:
		return nil
	case 1:
		return zero(res.At(0).Type())
	}
	t := make(Tuple, res.Len())
	for i := range t {
		t[i] = zero(res.At(i).Type())
	}
	return t
}

func fnPkgPath(fn *ssa.Function) string {
	if p := fn.Package(); p != nil {
		return p.Pkg.Path()
	}
	if o := fn.Origin(); o != nil && o.Package() != nil {
		return o.Package().Pkg.Path()
	}
	if fn.Object() != nil && fn.Object().Pkg() != nil {
		return fn.Object().Pkg().Path()
	}
	// method wrappers: use receiver type's package
	if fn.Signature.Recv() != nil {
		t := fn.Signature.Recv().Type()
		if p, ok := t.(*types.Pointer); ok {
			t = p.Elem()
		}
		if n, ok := t.(*types.Named); ok && n.Obj().Pkg() != nil {
			return n.Obj().Pkg().Path()
		}
	}
	return ""
}

var _ = strings.HasPrefix
