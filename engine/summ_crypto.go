package main

// Idealised public-key cryptography (DESIGN.md section 3): big integers are 528-bit vectors, curves are
// their constants plus an uninterpreted on-curve predicate, signatures verify iff they are exactly a
// signature produced by Sign for that key and message.

import (
	"fmt"
	"go/types"
	"math/big"

	"golang.org/x/tools/go/ssa"
)

const bigW = 528

type bigVal struct{ t *Term }

type curveInfo struct {
	name    string
	bits    int
	id      uint64
	pHex    string
	dynamic string // package path of the dynamic type
}

var curves = map[string]*curveInfo{
	"P-256":     {name: "P-256", bits: 256, id: 1, pHex: "ffffffff00000001000000000000000000000000ffffffffffffffffffffffff"},
	"P-384":     {name: "P-384", bits: 384, id: 2, pHex: "fffffffffffffffffffffffffffffffffffffffffffffffffffffffffffffffeffffffff0000000000000000ffffffff"},
	"P-521":     {name: "P-521", bits: 521, id: 3, pHex: "01ffffffffffffffffffffffffffffffffffffffffffffffffffffffffffffffffffffffffffffffffffffffffffffffffffffffffffffffffffffffffffffffffffff"},
	"secp256k1": {name: "secp256k1", bits: 256, id: 4, pHex: "fffffffffffffffffffffffffffffffffffffffffffffffffffffffefffffc2f"},
}

type sigEntry struct {
	scheme string // ecdsa | ed25519
	curve  uint64
	x, y   *Term   // ecdsa public key
	pub    []*Term // ed25519 public key bytes
	msg    *Str
	r, s   *Term   // ecdsa
	sig    []*Term // ed25519 (64 bytes)
}

func (in *Interp) newBig(t *Term) *value {
	slot := new(value)
	*slot = &bigVal{t: t}
	return slot
}

func (in *Interp) bigOf(v value) *Term {
	p, _ := v.(*value)
	if p == nil {
		panic(targetPanic{Msg: "nil pointer dereference (*big.Int)"})
	}
	if b, ok := (*p).(*bigVal); ok {
		return b.t
	}
	return BVu(bigW, 0)
}

// curveParams returns the singleton *elliptic.CurveParams object of a curve on this path.
func (in *Interp) curveParams(ci *curveInfo) *value {
	key := "curveparams:" + ci.name
	if p, ok := in.extra[key].(*value); ok {
		return p
	}
	t := in.namedType("crypto/elliptic", "CurveParams")
	st := zero(t).(Struct)
	sT := t.Underlying().(*types.Struct)
	p, _ := new(big.Int).SetString(ci.pHex, 16)
	for i := 0; i < sT.NumFields(); i++ {
		switch sT.Field(i).Name() {
		case "P":
			st[i] = in.newBig(BV(bigW, p))
		case "BitSize":
			st[i] = BVi(64, int64(ci.bits))
		case "Name":
			st[i] = lit(ci.name)
		case "N", "B", "Gx", "Gy":
			st[i] = in.newBig(BVu(bigW, 0))
		}
	}
	slot := new(value)
	*slot = st
	in.extra[key] = slot
	in.extra[fmt.Sprintf("curveof:%p", slot)] = ci
	return slot
}

func (in *Interp) curveIface(ci *curveInfo) Iface {
	if ci.name == "secp256k1" {
		key := "koblitz"
		if v, ok := in.extra[key].(Iface); ok {
			return v
		}
		t := in.namedType("github.com/btcsuite/btcd/btcec/v2", "KoblitzCurve")
		st := zero(t).(Struct)
		st[0] = in.curveParams(ci)
		slot := new(value)
		*slot = st
		in.extra[fmt.Sprintf("curveof:%p", slot)] = ci
		v := Iface{T: types.NewPointer(t), V: slot}
		in.extra[key] = v
		return v
	}
	return Iface{T: types.NewPointer(in.namedType("crypto/elliptic", "CurveParams")), V: in.curveParams(ci)}
}

func (in *Interp) curveOf(v value) *curveInfo {
	if iv, ok := v.(Iface); ok {
		v = iv.V
	}
	p, _ := v.(*value)
	if p == nil {
		panic(targetPanic{Msg: "nil pointer dereference (nil elliptic.Curve)"})
	}
	if ci, ok := in.extra[fmt.Sprintf("curveof:%p", p)].(*curveInfo); ok {
		return ci
	}
	panic(engineErr("unknown curve object"))
}

func (in *Interp) onCurve(ci *curveInfo, x, y *Term) *Term {
	return &Term{W: 0, S: fmt.Sprintf("(uf_oncurve %s %s %s)", BVu(64, ci.id).S, x.S, y.S)}
}

func bytesToBig(bs []*Term) *Term {
	if len(bs) == 0 {
		return BVu(bigW, 0)
	}
	// merge runs: adjacent extracts of one term, adjacent constants
	var segs []*Term
	for _, b := range bs {
		if n := len(segs); n > 0 {
			last := segs[n-1]
			if last.exOf != nil && b.exOf != nil && last.exOf == b.exOf && last.exLo == b.exHi+1 {
				segs[n-1] = Extract(last.exOf, last.exHi, b.exLo)
				continue
			}
			if last.Const && b.Const {
				segs[n-1] = Concat(last, b)
				continue
			}
		}
		segs = append(segs, b)
	}
	// zero padding in front of the low part of a term whose high part is known to be zero: the term itself
	if len(segs) == 2 && segs[0].Const && segs[0].V.Sign() == 0 && segs[1].exOf != nil && segs[1].exLo == 0 {
		base := segs[1].exOf
		if base.topZeroFrom > 0 && base.topZeroFrom <= segs[1].W && segs[0].W+segs[1].W == base.W {
			return ZExt(base, bigW)
		}
	}
	if len(segs) == 1 && segs[0].exOf != nil && segs[0].exLo == 0 {
		base := segs[0].exOf
		if base.topZeroFrom > 0 && base.topZeroFrom <= segs[0].W && base.W <= bigW {
			return ZExt(base, bigW)
		}
	}
	acc := segs[0]
	for _, b := range segs[1:] {
		acc = Concat(acc, b)
	}
	return ZExt(acc, bigW)
}

// bigBytes: minimal big-endian encoding; forks on the byte length.
func (in *Interp) bigBytes(t *Term) []*Term {
	n := 0
	orig := t
	if t.Const {
		n = (t.V.BitLen() + 7) / 8
	} else {
		t = in.share(t)
		max := bigW / 8
		if orig.zextOf != nil {
			max = (orig.zextOf.W + 7) / 8
		}
		conds := make([]*Term, max+1)
		for L := 0; L <= max; L++ {
			var lo, hi *Term
			if L == 0 {
				conds[L] = Eq(t, BVu(bigW, 0))
				continue
			}
			lo = Not(ULt(t, BV(bigW, new(big.Int).Lsh(bigOne, uint(8*(L-1))))))
			if L == max {
				hi = tTrue
			} else {
				hi = ULt(t, BV(bigW, new(big.Int).Lsh(bigOne, uint(8*L))))
			}
			conds[L] = And(lo, hi)
		}
		n = in.decide(conds)
	}
	base := orig
	if orig.zextOf != nil {
		base = orig.zextOf
	}
	if 8*n < base.W {
		base.topZeroFrom = 8 * n
	}
	out := make([]*Term, n)
	for i := 0; i < n; i++ {
		hiBit := 8*(n-i) - 1
		out[i] = Extract(orig, hiBit, hiBit-7)
	}
	return out
}

func (in *Interp) sigTable() []*sigEntry {
	t, _ := in.extra["sigs"].([]*sigEntry)
	return t
}

func (in *Interp) freshBig(hint string, bits int) *Term {
	w := ((bits + 7) / 8) * 8
	raw := in.newSym(w, hint)
	if bits < w {
		in.assert(ULt(raw, BV(w, new(big.Int).Lsh(bigOne, uint(bits)))))
	}
	// by default no leading zero byte at the field width (as for almost every real key); C15/C16 widen this
	if k := in.maxLZ + 1; 8*k <= w {
		in.assert(Not(Eq(Extract(raw, w-1, w-8*k), BVu(8*k, 0))))
	}
	return ZExt(raw, bigW)
}

func init() {
	bigp := "(*math/big.Int)."
	reg("math/big.NewInt", func(in *Interp, fn *ssa.Function, args []value) (value, bool) {
		return in.newBig(ZExt(args[0].(*Term), bigW)), true
	})
	reg(bigp+"SetBytes", func(in *Interp, fn *ssa.Function, args []value) (value, bool) {
		buf := args[1].(*Slice)
		if buf.Ghost != nil {
			panic(engineErr("big.Int.SetBytes of opaque bytes %s", buf.Ghost.Key()))
		}
		if len(buf.Data) > bigW/8 {
			panic(engineErr("big.Int.SetBytes of %d bytes", len(buf.Data)))
		}
		bs := make([]*Term, len(buf.Data))
		for i, b := range buf.Data {
			bs[i] = b.(*Term)
		}
		p := args[0].(*value)
		*p = &bigVal{t: bytesToBig(bs)}
		return p, true
	})
	reg(bigp+"Bytes", func(in *Interp, fn *ssa.Function, args []value) (value, bool) {
		bs := in.bigBytes(in.bigOf(args[0]))
		data := make([]value, len(bs))
		for i, b := range bs {
			data[i] = b
		}
		return &Slice{Data: data}, true
	})
	reg(bigp+"FillBytes", func(in *Interp, fn *ssa.Function, args []value) (value, bool) {
		t := in.bigOf(args[0])
		buf := args[1].(*Slice)
		n := len(buf.Data)
		if 8*n < bigW {
			in.panicIf(Not(ULt(t, BV(bigW, new(big.Int).Lsh(bigOne, uint(8*n))))), "math/big: buffer too small to fit value")
		}
		for i := 0; i < n; i++ {
			hi := 8*(n-i) - 1
			if hi >= bigW {
				in.store(&buf.Data[i], BVu(8, 0))
			} else {
				in.store(&buf.Data[i], Extract(t, hi, hi-7))
			}
		}
		return buf, true
	})
	reg(bigp+"BitLen", func(in *Interp, fn *ssa.Function, args []value) (value, bool) {
		t := in.bigOf(args[0])
		if t.Const {
			return BVi(64, int64(t.V.BitLen())), true
		}
		panic(engineErr("BitLen of symbolic big.Int"))
	})
	reg(bigp+"Cmp", func(in *Interp, fn *ssa.Function, args []value) (value, bool) {
		a, b := in.bigOf(args[0]), in.bigOf(args[1])
		return Ite(ULt(a, b), BVi(64, -1), Ite(Eq(a, b), BVi(64, 0), BVi(64, 1))), true
	})
	reg(bigp+"Sign", func(in *Interp, fn *ssa.Function, args []value) (value, bool) {
		a := in.bigOf(args[0])
		return Ite(Eq(a, BVu(bigW, 0)), BVi(64, 0), BVi(64, 1)), true
	})
	reg(bigp+"String", func(in *Interp, fn *ssa.Function, args []value) (value, bool) { return lit("<big>"), true })

	// ---- curves ----
	for name, cn := range map[string]string{"crypto/elliptic.P256": "P-256", "crypto/elliptic.P384": "P-384", "crypto/elliptic.P521": "P-521",
		"github.com/btcsuite/btcd/btcec/v2.S256": "secp256k1"} {
		ci := curves[cn]
		reg(name, func(in *Interp, fn *ssa.Function, args []value) (value, bool) {
			iv := in.curveIface(ci)
			if ci.name == "secp256k1" {
				return iv.V, true // S256 returns *KoblitzCurve
			}
			return iv, true
		})
	}
	reg("(*crypto/elliptic.CurveParams).Params", func(in *Interp, fn *ssa.Function, args []value) (value, bool) { return args[0], true })
	for _, kp := range []string{"github.com/btcsuite/btcd/btcec/v2", "github.com/decred/dcrd/dcrec/secp256k1/v4"} {
		reg("(*"+kp+".KoblitzCurve).Params", func(in *Interp, fn *ssa.Function, args []value) (value, bool) {
			p := args[0].(*value)
			return (*p).(Struct)[0], true
		})
	}
	onc := func(in *Interp, fn *ssa.Function, args []value) (value, bool) {
		ci := in.curveOf(args[0])
		return in.onCurve(ci, in.bigOf(args[1]), in.bigOf(args[2])), true
	}
	reg("(*crypto/elliptic.CurveParams).IsOnCurve", onc)
	reg("(*github.com/btcsuite/btcd/btcec/v2.KoblitzCurve).IsOnCurve", onc)
	reg("(*github.com/decred/dcrd/dcrec/secp256k1/v4.KoblitzCurve).IsOnCurve", onc)
	reg("github.com/decred/dcrd/dcrec/secp256k1/v4.S256", func(in *Interp, fn *ssa.Function, args []value) (value, bool) {
		return in.curveIface(curves["secp256k1"]).V, true
	})

	// ---- ECDSA ----
	reg("crypto/ecdsa.GenerateKey", func(in *Interp, fn *ssa.Function, args []value) (value, bool) {
		ci := in.curveOf(args[0])
		x, y := in.freshBig("pubx", ci.bits), in.freshBig("puby", ci.bits)
		in.assert(in.onCurve(ci, x, y))
		privT := in.namedType("crypto/ecdsa", "PrivateKey")
		st := zero(privT).(Struct)
		pub := st[0].(Struct)
		pub[0] = args[0]
		pub[1] = in.newBig(x)
		pub[2] = in.newBig(y)
		st[1] = in.newBig(in.freshBig("privd", ci.bits))
		slot := new(value)
		*slot = st
		return Tuple{slot, Iface{}}, true
	})
	reg("crypto/ecdsa.Sign", func(in *Interp, fn *ssa.Function, args []value) (value, bool) {
		priv := args[1].(*value)
		if priv == nil {
			panic(targetPanic{Msg: "nil pointer dereference (ecdsa.Sign with nil key)"})
		}
		pub := (*priv).(Struct)[0].(Struct)
		ci := in.curveOf(pub[0])
		r, s := in.freshBig("sigr", ci.bits), in.freshBig("sigs", ci.bits)
		e := &sigEntry{scheme: "ecdsa", curve: ci.id, x: in.bigOf(pub[1]), y: in.bigOf(pub[2]), msg: strOfSlice(in, args[2].(*Slice)), r: r, s: s}
		in.extra["sigs"] = append(in.sigTable(), e)
		return Tuple{in.newBig(r), in.newBig(s), Iface{}}, true
	})
	reg("crypto/ecdsa.Verify", func(in *Interp, fn *ssa.Function, args []value) (value, bool) {
		pubp := args[0].(*value)
		if pubp == nil {
			panic(targetPanic{Msg: "nil pointer dereference (ecdsa.Verify with nil key)"})
		}
		pub := (*pubp).(Struct)
		ci := in.curveOf(pub[0])
		x, y := in.bigOf(pub[1]), in.bigOf(pub[2])
		msg := strOfSlice(in, args[1].(*Slice))
		r, s := in.bigOf(args[2]), in.bigOf(args[3])
		var alts []*Term
		for _, e := range in.sigTable() {
			if e.scheme != "ecdsa" || e.curve != ci.id {
				continue
			}
			alts = append(alts, And(Eq(e.x, x), Eq(e.y, y), in.strEq(e.msg, msg), Eq(e.r, r), Eq(e.s, s)))
		}
		return Or(alts...), true
	})

	// ---- Ed25519 ----
	edGen := func(in *Interp, fn *ssa.Function, args []value) (value, bool) {
		pub := make([]value, 32)
		for i := range pub {
			pub[i] = in.newSym(8, fmt.Sprintf("edpub%d", i))
		}
		priv := make([]value, 64)
		for i := 0; i < 32; i++ {
			priv[i] = in.newSym(8, fmt.Sprintf("edseed%d", i))
			priv[32+i] = pub[i]
		}
		return Tuple{&Slice{Data: pub}, &Slice{Data: priv}, Iface{}}, true
	}
	edSign := func(in *Interp, fn *ssa.Function, args []value) (value, bool) {
		priv := args[0].(*Slice)
		if len(priv.Data) != 64 {
			panic(targetPanic{Msg: "ed25519: bad private key length"})
		}
		pub := make([]*Term, 32)
		for i := range pub {
			pub[i] = priv.Data[32+i].(*Term)
		}
		sig := make([]*Term, 64)
		data := make([]value, 64)
		for i := range sig {
			sig[i] = in.newSym(8, fmt.Sprintf("edsig%d", i))
			data[i] = sig[i]
		}
		e := &sigEntry{scheme: "ed25519", pub: pub, msg: strOfSlice(in, args[1].(*Slice)), sig: sig}
		in.extra["sigs"] = append(in.sigTable(), e)
		return &Slice{Data: data}, true
	}
	edVerify := func(in *Interp, fn *ssa.Function, args []value) (value, bool) {
		pub := args[0].(*Slice)
		if len(pub.Data) != 32 {
			panic(targetPanic{Msg: "ed25519: bad public key length"})
		}
		msg := strOfSlice(in, args[1].(*Slice))
		sig := args[2].(*Slice)
		if sig.Ghost != nil || len(sig.Data) != 64 {
			return tFalse, true
		}
		var alts []*Term
		for _, e := range in.sigTable() {
			if e.scheme != "ed25519" {
				continue
			}
			cs := []*Term{in.strEq(e.msg, msg)}
			for i := 0; i < 32; i++ {
				cs = append(cs, Eq(e.pub[i], pub.Data[i].(*Term)))
			}
			for i := 0; i < 64; i++ {
				cs = append(cs, Eq(e.sig[i], sig.Data[i].(*Term)))
			}
			alts = append(alts, And(cs...))
		}
		return Or(alts...), true
	}
	for _, pkg := range []string{"crypto/ed25519", "golang.org/x/crypto/ed25519"} {
		reg(pkg+".GenerateKey", edGen)
		reg(pkg+".Sign", edSign)
		reg(pkg+".Verify", edVerify)
	}
}

func init() {
	// btcec.ParsePubKey: serialized secp256k1 public keys. Uncompressed form only (0x04 || X || Y, 65 bytes): the
	// point must be on the curve (same uninterpreted predicate as IsOnCurve). Compressed and hybrid forms need a
	// square root in the field and end the path as outside the encoding.
	parse := func(in *Interp, fn *ssa.Function, args []value) (value, bool) {
		buf := args[0].(*Slice)
		if buf.Ghost != nil {
			panic(engineErr("btcec.ParsePubKey of opaque bytes"))
		}
		resT := fn.Signature.Results().At(0).Type()
		fail := func(msg string) (value, bool) {
			return Tuple{zero(resT), in.mkErrorf("%s", msg)}, true
		}
		n := len(buf.Data)
		if n == 0 {
			return fail("malformed public key: invalid length: 0")
		}
		if n != 65 {
			if n == 33 {
				panic(pathKilled{"outside the encoding: compressed secp256k1 public key"})
			}
			return fail("malformed public key: invalid length")
		}
		bs := make([]*Term, n)
		for i, b := range buf.Data {
			bs[i] = b.(*Term)
		}
		if !in.branch(Eq(bs[0], BVu(8, 4))) {
			panic(pathKilled{"outside the encoding: hybrid or unknown secp256k1 public key format"})
		}
		x, y := bytesToBig(bs[1:33]), bytesToBig(bs[33:65])
		if !in.branch(in.onCurve(curves["secp256k1"], x, y)) {
			return fail("invalid public key: not on secp256k1 curve")
		}
		slot := new(value)
		*slot = zero(resT.(*types.Pointer).Elem())
		return Tuple{slot, Iface{}}, true
	}
	reg("github.com/btcsuite/btcd/btcec/v2.ParsePubKey", parse)
	reg("github.com/decred/dcrd/dcrec/secp256k1/v4.ParsePubKey", parse)
}
