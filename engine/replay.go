package main

import (
	"bytes"
	"encoding/json"
	"fmt"
	"os"
	"os/exec"
	"path/filepath"
	"sort"
	"strings"
	"time"
)

type WitnessResult struct {
	Label  string
	OK     bool
	Sym    []string
	Native []string
}

type replayItem struct {
	harness string
	pkgRel  string
	model   []interface{}
	vio     *Violation
	wit     *PathResult
	label   string
	native  []string
	ran     bool
	crashed bool
}

type Replayer struct {
	repo, verif, scratch string
	ovFiles              map[string]string
	files                map[string][]string
	race                 bool
	Runs                 int
	Time                 time.Duration
}

func (rp *Replayer) replayAll(results []*HarnessResult) {
	byPkg := map[string][]*replayItem{}
	for _, hr := range results {
		for _, v := range hr.Violations {
			if v.Model == nil {
				v.ReplayNote = "no model"
				continue
			}
			byPkg[hr.Pkg] = append(byPkg[hr.Pkg], &replayItem{harness: hr.Name, pkgRel: hr.Pkg, model: v.Model, vio: v})
		}
		seen := map[*PathResult]bool{}
		var labels []string
		for l := range hr.Reach {
			labels = append(labels, l)
		}
		sort.Strings(labels)
		for _, l := range labels {
			pr := hr.Reach[l]
			if seen[pr] || len(pr.Violations) > 0 {
				continue
			}
			seen[pr] = true
			byPkg[hr.Pkg] = append(byPkg[hr.Pkg], &replayItem{harness: hr.Name, pkgRel: hr.Pkg, model: pr.Model, wit: pr, label: l})
		}
	}
	for pkg, items := range byPkg {
		rp.runBatch(pkg, items)
		// items that did not report (process died): run one by one
		for _, it := range items {
			if !it.ran {
				rp.runBatch(pkg, []*replayItem{it})
				if !it.ran {
					it.crashed = true
				}
			}
		}
		for _, it := range items {
			if it.vio != nil {
				v := it.vio
				v.Replayed = it.ran || it.crashed
				v.NativeEvents = it.native
				if it.crashed {
					v.NativeEvents = append(v.NativeEvents, "process-died")
				}
				switch v.Kind {
				case "panic":
					for _, e := range v.NativeEvents {
						if strings.HasPrefix(e, "panic:") || e == "process-died" {
							v.Confirmed = true
						}
					}
				default:
					for _, e := range v.NativeEvents {
						if e == "assert-fail:"+v.Label {
							v.Confirmed = true
						}
						if e == "data-race" && (strings.HasPrefix(v.Label, "data race") || strings.HasPrefix(v.Label, "unsynchronised access")) {
							v.Confirmed = true
						}
					}
				}
			}
		}
		for _, hr := range results {
			if hr.Pkg != pkg {
				continue
			}
			for _, it := range items {
				if it.wit == nil || it.harness != hr.Name {
					continue
				}
				sym := filterEv(it.wit.EvStr)
				nat := filterEv(it.native)
				ok := it.ran && strings.Join(sym, "|") == strings.Join(nat, "|")
				hr.WitnessRes = append(hr.WitnessRes, WitnessResult{Label: it.label, OK: ok, Sym: sym, Native: nat})
			}
		}
	}
}

func filterEv(ev []string) []string {
	var out []string
	for _, e := range ev {
		if strings.HasPrefix(e, "reach:") || strings.HasPrefix(e, "assert-fail:") || strings.HasPrefix(e, "stop:") {
			out = append(out, e)
		}
		if strings.HasPrefix(e, "panic:") {
			out = append(out, "panic")
		}
	}
	return out
}

const replayTestTmpl = `package %s

import (
	"encoding/json"
	"fmt"
	"os"
	"strings"
	"testing"

	verifrt "github.com/trustbloc/sidetree-go/pkg/internal/verifrt"
)

var verifHarnesses = map[string]func(){
%s}

func TestVerifReplay(t *testing.T) {
	list, err := os.ReadFile(os.Getenv("VERIF_REPLAY_LIST"))
	if err != nil {
		t.Fatal(err)
	}
	for _, line := range strings.Split(strings.TrimSpace(string(list)), "\n") {
		f := strings.SplitN(line, "\t", 3)
		if len(f) != 3 {
			continue
		}
		data, err := os.ReadFile(f[2])
		if err != nil {
			t.Fatal(err)
		}
		if err := verifrt.Load(data); err != nil {
			t.Fatal(err)
		}
		fn := verifHarnesses[f[1]]
		if fn == nil {
			t.Fatalf("no harness %%s", f[1])
		}
		fmt.Printf("VERIF-REPLAY-START %%s\n", f[0])
		ev := verifrt.Run(fn)
		b, _ := json.Marshal(ev)
		fmt.Printf("VERIF-REPLAY %%s %%s\n", f[0], b)
	}
}
`

func pkgNameOf(file string) string {
	src, _ := os.ReadFile(file)
	for _, l := range strings.Split(string(src), "\n") {
		if strings.HasPrefix(l, "package ") {
			return strings.TrimSpace(strings.TrimPrefix(l, "package "))
		}
	}
	return "main"
}

func (rp *Replayer) runBatch(pkgRel string, items []*replayItem) {
	t0 := time.Now()
	defer func() { rp.Time += time.Since(t0); rp.Runs++ }()
	dir, _ := os.MkdirTemp(rp.scratch, "replay-")
	// harness registry
	var names []string
	for _, f := range rp.files[pkgRel] {
		src, _ := os.ReadFile(f)
		for _, m := range harnessRe.FindAllStringSubmatch(string(src), -1) {
			names = append(names, m[1])
		}
	}
	sort.Strings(names)
	var reg strings.Builder
	for _, n := range names {
		fmt.Fprintf(&reg, "\t%q: %s,\n", n, n)
	}
	pkgName := pkgNameOf(rp.files[pkgRel][0])
	testFile := filepath.Join(dir, "zz_verif_replay_test.go")
	os.WriteFile(testFile, []byte(fmt.Sprintf(replayTestTmpl, pkgName, reg.String())), 0o644)
	ov := map[string]map[string]string{"Replace": {}}
	for dst, src := range rp.ovFiles {
		ov["Replace"][dst] = src
	}
	ov["Replace"][filepath.Join(rp.repo, pkgRel, "zz_verif_replay_test.go")] = testFile
	ovb, _ := json.Marshal(ov)
	ovPath := filepath.Join(dir, "overlay.json")
	os.WriteFile(ovPath, ovb, 0o644)
	var list strings.Builder
	for i, it := range items {
		ab, _ := json.Marshal(it.model)
		ap := filepath.Join(dir, fmt.Sprintf("a%d.json", i))
		os.WriteFile(ap, ab, 0o644)
		fmt.Fprintf(&list, "%d\t%s\t%s\n", i, it.harness, ap)
	}
	listPath := filepath.Join(dir, "list.txt")
	os.WriteFile(listPath, []byte(list.String()), 0o644)
	// address-space limit: a counterexample may be "allocates an input-controlled amount of memory"
	cmd := exec.Command("bash", "-c", "ulimit -v "+map[bool]string{true: "unlimited", false: "16000000"}[rp.race]+"; exec go test "+map[bool]string{true: "-race ", false: ""}[rp.race]+"-v -vet=off -count=1 -timeout 300s -overlay "+ovPath+" -run '^TestVerifReplay$' ./"+pkgRel)
	cmd.Dir = rp.repo
	cmd.Env = append(os.Environ(), "GOFLAGS=-mod=mod", "GOPROXY=off", "GOSUMDB=off", "GOTOOLCHAIN=local", "VERIF_REPLAY_LIST="+listPath)
	var out bytes.Buffer
	cmd.Stdout = &out
	cmd.Stderr = &out
	cmd.Run()
	started := -1
	raced := strings.Contains(out.String(), "DATA RACE")
	defer func() {
		if raced {
			for _, it := range items {
				it.native = append(it.native, "data-race")
			}
		}
	}()
	for _, l := range strings.Split(out.String(), "\n") {
		if strings.HasPrefix(l, "VERIF-REPLAY-START ") {
			fmt.Sscan(strings.TrimPrefix(l, "VERIF-REPLAY-START "), &started)
		}
		if strings.HasPrefix(l, "VERIF-REPLAY ") {
			f := strings.SplitN(l, " ", 3)
			var idx int
			fmt.Sscan(f[1], &idx)
			var ev []string
			json.Unmarshal([]byte(f[2]), &ev)
			if idx >= 0 && idx < len(items) {
				items[idx].native = ev
				items[idx].ran = true
			}
			started = -1
		}
	}
	if started >= 0 && started < len(items) && len(items) == 1 {
		// the process died inside this item
		items[started].crashed = true
		tail := out.String()
		if len(tail) > 600 {
			tail = tail[:600]
		}
		items[started].native = append(items[started].native, "fatal:"+strings.ReplaceAll(tail, "\n", " / "))
	}
	if !strings.Contains(out.String(), "VERIF-REPLAY") {
		tail := out.String()
		if len(tail) > 2000 {
			tail = tail[len(tail)-2000:]
		}
		for _, it := range items {
			if it.vio != nil {
				it.vio.ReplayNote = "go test produced no replay output: " + tail
			}
		}
		fmt.Fprintln(os.Stderr, "replay: go test output:\n"+tail)
	}
	os.RemoveAll(dir)
}

// replayStored re-runs one stored counterexample file.
func replayStored(path, repo, verif string) int {
	b, err := os.ReadFile(path)
	if err != nil {
		fatal(err)
	}
	var rec struct {
		Harness string        `json:"harness"`
		Pkg     string        `json:"pkg"`
		Label   string        `json:"label"`
		Kind    string        `json:"kind"`
		Inputs  []interface{} `json:"inputs"`
	}
	if err := json.Unmarshal(b, &rec); err != nil {
		fatal(err)
	}
	_, files, _ := discover(filepath.Join(verif, "harness"), "")
	scratch, _ := os.MkdirTemp("", "symgo-replay-")
	defer os.RemoveAll(scratch)
	ovFiles := map[string]string{filepath.Join(repo, "pkg/internal/verifrt/rt.go"): filepath.Join(verif, "rt", "rt.go")}
	for rel, fs := range files {
		if rel == rec.Pkg || strings.HasPrefix(rel, "pkg/internal/") {
			for _, f := range fs {
				ovFiles[filepath.Join(repo, rel, filepath.Base(f))] = f
			}
		}
	}
	rp := &Replayer{repo: repo, verif: verif, scratch: scratch, ovFiles: ovFiles, files: files}
	v := &Violation{Harness: rec.Harness, Label: rec.Label, Kind: rec.Kind, Model: rec.Inputs}
	it := &replayItem{harness: rec.Harness, pkgRel: rec.Pkg, model: rec.Inputs, vio: v}
	rp.runBatch(rec.Pkg, []*replayItem{it})
	fmt.Printf("native events: %v\n", it.native)
	for _, e := range it.native {
		if e == "assert-fail:"+rec.Label || (rec.Kind == "panic" && strings.HasPrefix(e, "panic:")) {
			fmt.Printf("REPRODUCED label=%q\n", rec.Label)
			return 1
		}
	}
	if it.crashed && rec.Kind == "panic" {
		fmt.Printf("REPRODUCED (process died) label=%q\n", rec.Label)
		return 1
	}
	fmt.Println("not reproduced")
	return 0
}

// ---------- evidence ----------

func writeEvidence(verif, prop, tier string, seed int, results []*HarnessResult, vios []map[string]interface{}, wall time.Duration,
	problems []string, witnessesOK int, extra map[string]interface{}) {
	var states, trans int64
	var queries, obligations, discharged, paths int
	var solverS float64
	funcs := map[string]int{}
	summ := map[string]bool{}
	var samples []interface{}
	var hsum []interface{}
	for _, hr := range results {
		states += hr.Blocks
		trans += hr.Steps
		queries += hr.Queries
		obligations += hr.AssertsChk
		discharged += hr.AssertsDis
		paths += hr.Paths
		solverS += hr.SolverTime.Seconds()
		for f, n := range hr.Funcs {
			funcs[f] = n
		}
		for s := range hr.Summaries {
			summ[s] = true
		}
		var labels []string
		for l := range hr.Reach {
			labels = append(labels, l)
		}
		sort.Strings(labels)
		hsum = append(hsum, map[string]interface{}{"harness": hr.Name, "pkg": hr.Pkg, "paths": hr.Paths, "paths_killed_by_assume": hr.Killed, "paths_ended_by": hr.KillWhy,
			"paths_panicked": hr.Panics, "solver_queries": hr.Queries, "solver_s": hr.SolverTime.Seconds(), "wall_s": hr.Wall.Seconds(),
			"assertions_checked": hr.AssertsChk, "assertions_discharged": hr.AssertsDis, "reach_labels_witnessed": labels,
			"witness_replays": len(hr.WitnessRes)})
		for i, sp := range hr.SamplePaths {
			if i < 2 {
				samples = append(samples, map[string]interface{}{"harness": hr.Name, "decisions": sp.Trace, "events": sp.EvStr, "inputs": sp.Model, "status": sp.Status})
			}
		}
	}
	if len(samples) == 0 {
		samples = append(samples, map[string]interface{}{"note": "no completed path"})
	}
	var fl []string
	for f, n := range funcs {
		if strings.Contains(f, "verifrt") {
			continue
		}
		fl = append(fl, fmt.Sprintf("%s (%d instrs)", f, n))
	}
	sort.Strings(fl)
	var sl []string
	for s := range summ {
		sl = append(sl, s)
	}
	sort.Strings(sl)
	if states == 0 {
		states = 1
	}
	if trans == 0 {
		trans = 1
	}
	cov := map[string]interface{}{
		"states": states, "transitions": trans, "traces_validated_against_impl": witnessesOK, "samples": samples,
		"obligations": obligations, "discharged": discharged,
		"paths": paths, "solver_queries": queries, "solver_time_s": solverS,
		"functions_encoded": fl, "summaries_used": sl, "harnesses": hsum,
		"explanation": "states = basic-block visits over all explored paths, transitions = SSA instructions executed symbolically; every obligation is an Assert decided by the SMT solver over all values of the symbolic inputs of its path",
		"exhaustive": len(problems) == 0,
		"problems":   problems,
	}
	for k, v := range extra {
		cov[k] = v
	}
	if vios != nil {
		cov["violations_detail"] = vios
	}
	nv := 0
	for _, v := range vios {
		if k, _ := v["known"].(bool); !k {
			nv++
		}
	}
	ev := map[string]interface{}{
		"property_id": prop, "tier": tier, "seed": seed, "level": "model_checking", "coverage": cov,
		"assumptions": assumptionsFor(sl), "wall_s": wall.Seconds(), "violations": nv,
	}
	b, _ := json.MarshalIndent(ev, "", " ")
	os.MkdirAll(filepath.Join(verif, "evidence"), 0o755)
	os.WriteFile(filepath.Join(verif, "evidence", prop+".json"), b, 0o644)
}

func assumptionsFor(summ []string) []string {
	out := []string{
		"bounded symbolic execution of go/ssa built from /repo's working tree; bounds are the shapes enumerated by the harness (Choose) and the unwinding limit; nothing is claimed outside them",
		"library calls listed in summaries_used are replaced by algebraic summaries (DESIGN.md section 3); hashes are treated as injective, encoders of different kinds never collide",
		"solver: z3 4.8.12, any unknown/error answer makes the run inconclusive",
	}
	return out
}
