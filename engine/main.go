package main

import (
	"encoding/json"
	"flag"
	"fmt"
	"os"
	"os/exec"
	"path/filepath"
	"regexp"
	"runtime"
	"sort"
	"strings"
	"sync"
	"time"
)

type HarnessRef struct {
	PkgRel   string // pkg/versions/1_0/operationapplier
	Func     string
	Thorough bool // thorough tier only
	File     string
}

var harnessRe = regexp.MustCompile(`(?m)^func (Harness(T?)_(C\d+)_\w+)\(\)`)

// discover finds harness functions for a property under harnessDir.
func discover(harnessDir, prop string) ([]HarnessRef, map[string][]string, error) {
	var refs []HarnessRef
	files := map[string][]string{} // pkgRel -> files
	err := filepath.Walk(harnessDir, func(p string, info os.FileInfo, err error) error {
		if err != nil || info.IsDir() || !strings.HasSuffix(p, ".go") {
			return err
		}
		rel, _ := filepath.Rel(harnessDir, filepath.Dir(p))
		files[rel] = append(files[rel], p)
		src, err := os.ReadFile(p)
		if err != nil {
			return err
		}
		for _, m := range harnessRe.FindAllStringSubmatch(string(src), -1) {
			if m[3] == prop {
				refs = append(refs, HarnessRef{PkgRel: rel, Func: m[1], Thorough: m[2] == "T", File: p})
			}
		}
		return nil
	})
	return refs, files, err
}

type KnownFinding struct {
	Property string `json:"property"`
	Status   string `json:"status"` // known | fixed
	Harness  string `json:"harness"`
	Label    string `json:"label"`
	What     string `json:"what"`
	Commit   string `json:"commit,omitempty"`
}

func loadKnown(path string) []KnownFinding {
	var k struct {
		Findings []KnownFinding `json:"findings"`
	}
	b, err := os.ReadFile(path)
	if err != nil {
		return nil
	}
	if err := json.Unmarshal(b, &k); err != nil {
		fmt.Fprintln(os.Stderr, "known_findings.json:", err)
	}
	return k.Findings
}

func main() {
	prop := flag.String("prop", "", "property id (C01..C20)")
	tier := flag.String("tier", "quick", "quick|thorough")
	repo := flag.String("repo", "/repo", "repository under test")
	verif := flag.String("verif", "/verif", "verification directory")
	only := flag.String("only", "", "run only this harness function")
	workers := flag.Int("workers", runtime.NumCPU(), "parallel workers")
	solver := flag.String("solver", "z3", "z3|z3-new|cvc5")
	cross := flag.Bool("cross", false, "re-run every query transcript under the other solvers and compare")
	verbose := flag.Bool("v", false, "verbose")
	noReplay := flag.Bool("no-replay", false, "skip native replay (debugging only; never registered)")
	replayFile := flag.String("replay", "", "replay a stored counterexample file natively")
	maxPaths := flag.Int("max-paths", 0, "stop after N paths (run is then reported inconclusive)")
	unwind := flag.Int("unwind", 64, "default back-edge limit per loop and frame")
	flag.Parse()

	if *replayFile != "" {
		os.Exit(replayStored(*replayFile, *repo, *verif))
	}
	if *prop == "" {
		fmt.Fprintln(os.Stderr, "need -prop")
		os.Exit(2)
	}
	if t := os.Getenv("VERIF_TIER"); t != "" && !isFlagSet("tier") {
		*tier = t
	}
	seed := 0
	fmt.Sscan(os.Getenv("VERIF_SEED"), &seed)
	t0 := time.Now()

	refs, files, err := discover(filepath.Join(*verif, "harness"), *prop)
	if err != nil || len(refs) == 0 {
		fmt.Fprintf(os.Stderr, "no harness for %s (%v)\n", *prop, err)
		os.Exit(2)
	}
	var run []HarnessRef
	for _, r := range refs {
		if r.Thorough && *tier != "thorough" {
			continue
		}
		if *only != "" && r.Func != *only {
			continue
		}
		run = append(run, r)
	}
	sort.Slice(run, func(i, j int) bool { return run[i].Func < run[j].Func })

	// overlay: harness files of the packages involved + verifrt
	overlay := map[string][]byte{}
	ovFiles := map[string]string{}
	rtSrc := filepath.Join(*verif, "rt", "rt.go")
	b, err := os.ReadFile(rtSrc)
	if err != nil {
		fatal(err)
	}
	rtDst := filepath.Join(*repo, "pkg/internal/verifrt/rt.go")
	overlay[rtDst] = b
	ovFiles[rtDst] = rtSrc
	pkgSet := map[string]bool{}
	for _, r := range run {
		pkgSet[r.PkgRel] = true
	}
	for rel := range files {
		if strings.HasPrefix(rel, "pkg/internal/") {
			pkgSet[rel] = true // shared generator packages are always part of the overlay
		}
	}
	var patterns []string
	for rel := range pkgSet {
		patterns = append(patterns, "./"+rel)
		for _, f := range files[rel] {
			src, err := os.ReadFile(f)
			if err != nil {
				fatal(err)
			}
			dst := filepath.Join(*repo, rel, filepath.Base(f))
			overlay[dst] = src
			ovFiles[dst] = f
		}
	}
	sort.Strings(patterns)

	eng := &Engine{execPfx: defaultExec, workers: *workers, solver: *solver, maxPaths: *maxPaths, verbose: *verbose}
	scratch, err := os.MkdirTemp("", "symgo-")
	if err != nil {
		fatal(err)
	}
	defer os.RemoveAll(scratch)
	if d := os.Getenv("SYMGO_TRANSCRIPT"); d != "" {
		eng.crossDir = d
		os.MkdirAll(d, 0o755)
	}
	if *cross {
		eng.crossDir = filepath.Join(scratch, "cross")
		os.MkdirAll(eng.crossDir, 0o755)
	}
	tl := time.Now()
	if err := eng.Load(*repo, overlay, patterns); err != nil {
		fmt.Printf("INCONCLUSIVE property=%s load failed: %v\n", *prop, err)
		writeEvidence(*verif, *prop, *tier, seed, nil, nil, time.Since(t0), []string{"load failed: " + err.Error()}, 0, nil)
		os.Exit(2)
	}
	loadTime := time.Since(tl)

	var results []*HarnessResult
	var problems []string
	for _, r := range run {
		fn := eng.findFunc(repoMod+"/"+r.PkgRel, r.Func)
		if fn == nil {
			problems = append(problems, "harness function not found: "+r.Func)
			continue
		}
		hr := eng.Explore(fn, *unwind)
		hr.Pkg = r.PkgRel
		results = append(results, hr)
		fmt.Fprintf(os.Stderr, "[%s] %s: %d paths (%d killed, %d panics), %d queries, solver %.1fs, wall %.1fs, asserts %d/%d, violations %d, errors %d\n",
			*prop, r.Func, hr.Paths, hr.Killed, hr.Panics, hr.Queries, hr.SolverTime.Seconds(), hr.Wall.Seconds(), hr.AssertsDis, hr.AssertsChk, len(hr.Violations), len(hr.Errors))
		errKinds := map[string]int{}
		errSample := map[string]string{}
		for _, e := range hr.Errors {
			k := e
			if i := strings.Index(k, " @ "); i >= 0 {
				k = k[:i]
			}
			errKinds[k]++
			errSample[k] = e
		}
		for k, n := range errKinds {
			problems = append(problems, fmt.Sprintf("%s: engine error (x%d): %s", r.Func, n, errSample[k]))
		}
		for i, e := range hr.Inconclusive {
			if i < 5 {
				problems = append(problems, r.Func+": "+e)
			}
		}
		if hr.Truncated {
			problems = append(problems, r.Func+": path limit reached, exploration truncated")
		}
		if hr.SolverErrors > 0 {
			problems = append(problems, fmt.Sprintf("%s: %d solver (error lines", r.Func, hr.SolverErrors))
		}
		if hr.Paths-hr.Killed == 0 {
			problems = append(problems, r.Func+": vacuous (no feasible path completes)")
		}
	}

	// vacuity: every Reach label and Assert label declared in the harness source must be witnessed
	for _, r := range run {
		src, _ := os.ReadFile(r.File)
		want := declaredLabels(string(src), r.Func)
		var hr *HarnessResult
		for _, x := range results {
			if x.Name == r.Func {
				hr = x
			}
		}
		if hr == nil {
			continue
		}
		for _, l := range want {
			if _, ok := hr.Reach[l]; !ok {
				problems = append(problems, fmt.Sprintf("%s: vacuous: label %q never reached on a feasible path", r.Func, l))
			}
		}
	}

	// cross-check transcripts
	crossInfo := map[string]interface{}{}
	if *cross {
		dis, n, msgs := crossCheck(results)
		crossInfo["transcripts"] = n
		crossInfo["disagreements"] = dis
		for _, m := range msgs {
			problems = append(problems, "cross-check: "+m)
		}
	}

	// native replay of counterexamples and witnesses
	known := loadKnown(filepath.Join(*verif, "known_findings.json"))
	rp := &Replayer{repo: *repo, verif: *verif, scratch: scratch, ovFiles: ovFiles, files: files, race: *prop == "C20"}
	confirmed, unconfirmed, witnessesOK, witnessBad := 0, 0, 0, 0
	exit := 0
	var vioOut []map[string]interface{}
	var knownHit []string
	if !*noReplay {
		rp.replayAll(results)
		os.MkdirAll(filepath.Join(*verif, "replays", *prop), 0o755)
		seenV := map[string]bool{}
		n := 0
		for _, hr := range results {
			for _, v := range hr.Violations {
				if !v.Replayed {
					problems = append(problems, fmt.Sprintf("%s: counterexample for %q could not be replayed: %s", hr.Name, v.Label, v.ReplayNote))
					continue
				}
				if !v.Confirmed {
					unconfirmed++
					fmt.Printf("UNCONFIRMED property=%s harness=%s label=%q native=%v\n", *prop, hr.Name, v.Label, v.NativeEvents)
					if os.Getenv("SYMGO_DEBUG_UNCONFIRMED") != "" {
						jb, _ := json.Marshal(v.Model)
						fmt.Printf("  inputs=%s\n  events=%v\n", jb, v.Events)
					}
					problems = append(problems, fmt.Sprintf("%s: counterexample for %q did not reproduce natively", hr.Name, v.Label))
					continue
				}
				confirmed++
				key := hr.Name + "|" + v.Label
				if seenV[key] {
					continue
				}
				seenV[key] = true
				isKnown := false
				for _, k := range known {
					if k.Status == "known" && k.Property == *prop && k.Harness == hr.Name && k.Label == v.Label {
						isKnown = true
						knownHit = append(knownHit, k.What)
						fmt.Printf("KNOWN-FINDING: property=%s %s\n", *prop, k.What)
					}
				}
				rec := map[string]interface{}{"harness": hr.Name, "pkg": hr.Pkg, "label": v.Label, "kind": v.Kind, "msg": v.Msg, "inputs": v.Model, "stack": v.Stack, "native_events": v.NativeEvents, "known": isKnown}
				vioOut = append(vioOut, rec)
				if !isKnown {
					n++
					path := filepath.Join(*verif, "replays", *prop, fmt.Sprintf("%s_%d.json", hr.Name, n))
					jb, _ := json.MarshalIndent(rec, "", " ")
					os.WriteFile(path, jb, 0o644)
					fmt.Printf("VIOLATION property=%s replay=%s\n", *prop, path)
					fmt.Printf("  harness=%s label=%q %s\n", hr.Name, v.Label, v.Msg)
					exit = 1
				}
			}
			for _, w := range hr.WitnessRes {
				if w.OK {
					witnessesOK++
				} else {
					witnessBad++
					problems = append(problems, fmt.Sprintf("%s: witness replay mismatch for label %q: symbolic %v native %v", hr.Name, w.Label, w.Sym, w.Native))
				}
			}
		}
	} else {
		for _, hr := range results {
			for _, v := range hr.Violations {
				fmt.Printf("SYMBOLIC-VIOLATION (not replayed) harness=%s label=%q %s model=%v\n", hr.Name, v.Label, v.Msg, v.Model)
				for _, s := range v.Stack {
					fmt.Println("     ", s)
				}
			}
		}
	}

	for _, p := range problems {
		fmt.Printf("INCONCLUSIVE property=%s %s\n", *prop, p)
	}
	if exit == 0 && len(problems) > 0 {
		exit = 2
	}
	extra := map[string]interface{}{"load_s": loadTime.Seconds(), "confirmed_violations": confirmed, "unconfirmed": unconfirmed,
		"witness_replays_ok": witnessesOK, "witness_replays_bad": witnessBad, "cross": crossInfo, "known_findings_matched": knownHit, "solver": *solver}
	writeEvidence(*verif, *prop, *tier, seed, results, vioOut, time.Since(t0), problems, witnessesOK, extra)
	if exit == 0 {
		fmt.Printf("OK property=%s tier=%s harnesses=%d wall=%.1fs\n", *prop, *tier, len(results), time.Since(t0).Seconds())
	}
	os.Exit(exit)
}

func isFlagSet(name string) bool {
	set := false
	flag.Visit(func(f *flag.Flag) {
		if f.Name == name {
			set = true
		}
	})
	return set
}

func fatal(err error) {
	fmt.Fprintln(os.Stderr, "symgo:", err)
	os.Exit(2)
}

var labelRe = regexp.MustCompile(`verifrt\.Reach\("([^"]+)"\)`)

// declaredLabels returns Reach labels that textually occur in the body of harness fn
// (and in helper functions of the same file marked //verif:labels-of <fn>).
func declaredLabels(src, fn string) []string {
	i := strings.Index(src, "func "+fn+"()")
	if i < 0 {
		return nil
	}
	rest := src[i:]
	if j := strings.Index(rest[1:], "\nfunc "); j >= 0 {
		rest = rest[:j+1]
	}
	var out []string
	for _, m := range labelRe.FindAllStringSubmatch(rest, -1) {
		out = append(out, m[1])
	}
	return out
}

func crossCheck(results []*HarnessResult) (int, int, []string) {
	type job struct{ tr string }
	var jobs []job
	for _, hr := range results {
		for _, tr := range hr.Transcripts {
			jobs = append(jobs, job{tr})
		}
	}
	var mu sync.Mutex
	dis := 0
	var msgs []string
	sem := make(chan struct{}, runtime.NumCPU())
	var wg sync.WaitGroup
	for _, j := range jobs {
		wg.Add(1)
		go func(tr string) {
			defer wg.Done()
			sem <- struct{}{}
			defer func() { <-sem }()
			ref := runTranscript("/usr/bin/z3", []string{"-smt2", tr})
			for _, alt := range [][]string{{"z3-new", "-smt2", tr}, {"cvc5", "--incremental", "--lang=smt2", "--tlimit-per=60000", tr}} {
				got := runTranscript(alt[0], alt[1:])
				mu.Lock()
				if len(got) != len(ref) {
					dis++
					msgs = append(msgs, fmt.Sprintf("%s: %s gave %d answers, z3 gave %d", filepath.Base(tr), alt[0], len(got), len(ref)))
				} else {
					for i := range ref {
						if ref[i] != got[i] && ref[i] != "unknown" && got[i] != "unknown" {
							dis++
							msgs = append(msgs, fmt.Sprintf("%s: query %d: z3=%s %s=%s", filepath.Base(tr), i, ref[i], alt[0], got[i]))
							break
						}
					}
				}
				mu.Unlock()
			}
		}(j.tr)
	}
	wg.Wait()
	return dis, len(jobs), msgs
}

func runTranscript(bin string, args []string) []string {
	out, _ := exec.Command(bin, args...).CombinedOutput()
	var ans []string
	for _, l := range strings.Split(string(out), "\n") {
		l = strings.TrimSpace(l)
		if l == "sat" || l == "unsat" || l == "unknown" {
			ans = append(ans, l)
		}
	}
	return ans
}
