package main

import (
	"net/url"
	"regexp"
	"strings"

	"golang.org/x/tools/go/ssa"
)

// reVal: a compiled regular expression of the supported subset ^[class]+$ / ^[class]*$
type reVal struct {
	src    string
	ranges [][2]byte
	plus   bool
	native *regexp.Regexp
}

func parseSimpleRe(src string) *reVal {
	rv := &reVal{src: src, native: regexp.MustCompile(src)}
	if !strings.HasPrefix(src, "^[") || !(strings.HasSuffix(src, "]+$") || strings.HasSuffix(src, "]*$")) {
		return rv
	}
	rv.plus = strings.HasSuffix(src, "]+$")
	cls := src[2 : len(src)-3]
	for i := 0; i < len(cls); i++ {
		if i+2 < len(cls) && cls[i+1] == '-' {
			rv.ranges = append(rv.ranges, [2]byte{cls[i], cls[i+2]})
			i += 2
		} else {
			rv.ranges = append(rv.ranges, [2]byte{cls[i], cls[i]})
		}
	}
	return rv
}

type urlVal struct{ s *Str }

// uriValid decides url.ParseRequestURI / url.Parse success.
func (in *Interp) uriValid(s *Str, requestURI bool) *Term {
	if c, ok := s.Concrete(); ok {
		var err error
		if requestURI {
			_, err = url.ParseRequestURI(c)
		} else {
			_, err = url.Parse(c)
		}
		return Bool(err == nil)
	}
	// literal scheme prefix followed by opaque alphanumerics: valid (atoms replay as letters)
	ps := parts(s)
	if len(ps) > 0 {
		if c, ok := ps[0].Concrete(); ok && (strings.HasPrefix(c, "https://") || strings.HasPrefix(c, "http://") || strings.HasPrefix(c, "did:")) {
			okRest := true
			for _, p := range ps[1:] {
				if p.Kind != sAtom {
					if _, isC := p.Concrete(); !isC {
						okRest = false
					}
				}
			}
			if okRest {
				in.summUsed["assumption: literal-scheme URI with opaque alphanumeric tail is a valid URI"] = true
				return tTrue
			}
		}
	}
	if s.Kind == sAtom {
		// a bare opaque token: url.Parse accepts it, ParseRequestURI does not (no scheme, no leading slash) - as in the native replay
		return Bool(!requestURI)
	}
	// byte-precise symbolic text: net/url's verdict is an uninterpreted (but consistent) predicate of the string
	in.summUsed["assumption: URI validity of symbolic text is an uninterpreted predicate"] = true
	if requestURI {
		return in.freshBool("requri:" + s.Key())
	}
	return in.freshBool("uri:" + s.Key())
}

func init() {
	reg("regexp.MustCompile", func(in *Interp, fn *ssa.Function, args []value) (value, bool) {
		src := args[0].(*Str).MustConcrete("regexp source")
		slot := new(value)
		*slot = parseSimpleRe(src)
		return slot, true
	})
	reg("(*regexp.Regexp).MatchString", func(in *Interp, fn *ssa.Function, args []value) (value, bool) {
		rv := (*(args[0].(*value))).(*reVal)
		s := args[1].(*Str)
		if c, ok := s.Concrete(); ok {
			return Bool(rv.native.MatchString(c)), true
		}
		if rv.ranges == nil {
			panic(engineErr("regexp %q on symbolic input: pattern outside the supported subset", rv.src))
		}
		if s.Kind == sAtom {
			// atoms replay as ASCII letters: they match any class containing a-z and A-Z
			in.summUsed["assumption: opaque atoms are ASCII letters"] = true
			return tTrue, true
		}
		b := in.strBytes(s, "regexp match")
		if len(b) == 0 {
			return Bool(!rv.plus), true
		}
		var all []*Term
		for _, x := range b {
			var any []*Term
			for _, r := range rv.ranges {
				if r[0] == r[1] {
					any = append(any, Eq(x, BVu(8, uint64(r[0]))))
				} else {
					any = append(any, And(ULe(BVu(8, uint64(r[0])), x), ULe(x, BVu(8, uint64(r[1])))))
				}
			}
			all = append(all, Or(any...))
		}
		return And(all...), true
	})
	parse := func(requestURI bool) summaryFn {
		return func(in *Interp, fn *ssa.Function, args []value) (value, bool) {
			s := args[0].(*Str)
			ok := in.uriValid(s, requestURI)
			if in.branch(ok) {
				slot := new(value)
				*slot = &urlVal{s: s}
				return Tuple{slot, Iface{}}, true
			}
			return Tuple{(*value)(nil), in.mkErrorf("parse: invalid URI")}, true
		}
	}
	reg("net/url.ParseRequestURI", parse(true))
	reg("net/url.Parse", parse(false))
	reg("(*net/url.URL).String", func(in *Interp, fn *ssa.Function, args []value) (value, bool) {
		p := args[0].(*value)
		if p == nil {
			panic(targetPanic{Msg: "nil pointer dereference ((*url.URL).String)"})
		}
		u := (*p).(*urlVal)
		if c, ok := u.s.Concrete(); ok {
			pu, err := url.Parse(c)
			if err == nil {
				return lit(pu.String()), true
			}
		}
		return u.s, true
	})
}
