package main

import (
	"fmt"
	"go/types"
	"strconv"
	"strings"

	"golang.org/x/tools/go/ssa"
)

func reg(name string, f summaryFn) { summaries[name] = f }

func regs(names []string, f summaryFn) {
	for _, n := range names {
		summaries[n] = f
	}
}

// ---------- errors ----------

func (in *Interp) errType() types.Type {
	if t, ok := in.extra["errT"]; ok {
		return t.(types.Type)
	}
	p := in.prog.ImportedPackage("errors")
	if p == nil {
		panic(engineErr("package errors not loaded"))
	}
	t := types.NewPointer(p.Type("errorString").Type())
	in.extra["errT"] = t
	return t
}

func (in *Interp) mkError(msg *Str) Iface {
	slot := new(value)
	*slot = Struct{msg}
	return Iface{T: in.errType(), V: slot}
}

func (in *Interp) mkErrorf(f string, a ...interface{}) Iface {
	return in.mkError(lit(fmt.Sprintf(f, a...)))
}

// errMsg returns the message of an error value (by calling its Error method).
func (in *Interp) errMsg(e Iface) *Str {
	if e.T == nil {
		return lit("<nil>")
	}
	m := in.findMethod(e.T, "Error")
	if m == nil {
		return lit("<error>")
	}
	return in.callFn(in.curFrame, 0, m, []value{e.V}).(*Str)
}

// ---------- fmt ----------

func (in *Interp) fmtArg(verb byte, flags string, a value) *Str {
	switch x := a.(type) {
	case Iface:
		if x.T == nil {
			return lit("<nil>")
		}
		if verb != 'T' {
			if m := in.findMethod(x.T, "Error"); m != nil && types.Implements(x.T, errorIface) {
				if p, ok := x.V.(*value); ok && p == nil {
					return lit("<nil>")
				}
				return in.callFn(in.curFrame, 0, m, []value{x.V}).(*Str)
			}
			if m := in.findMethod(x.T, "String"); m != nil && (verb == 's' || verb == 'v' || verb == 'q') {
				if m.Signature.Params().Len() == 0 && m.Signature.Results().Len() == 1 && isString(m.Signature.Results().At(0).Type()) {
					if p, ok := x.V.(*value); !ok || p != nil {
						if s, ok := in.tryCall(m, []value{x.V}).(*Str); ok {
							return in.fmtArg(verb, flags, s)
						}
					}
				}
			}
		} else {
			return lit(x.T.String())
		}
		return in.fmtTyped(verb, flags, x.V, x.T)
	}
	return in.fmtTyped(verb, flags, a, nil)
}

func (in *Interp) tryCall(m *ssa.Function, args []value) (res value) {
	defer func() {
		if r := recover(); r != nil {
			if _, ok := r.(*EngineError); ok {
				res = nil
				return
			}
			panic(r)
		}
	}()
	return in.callFn(in.curFrame, 0, m, args)
}

var errorIface = types.Universe.Lookup("error").Type().Underlying().(*types.Interface)

func (in *Interp) fmtTyped(verb byte, flags string, a value, t types.Type) *Str {
	switch x := a.(type) {
	case *Str:
		if verb == 'q' {
			if c, ok := x.Concrete(); ok {
				return lit(strconv.Quote(c))
			}
			return concatStr(lit(`"`), x, lit(`"`))
		}
		if verb == 'x' {
			if c, ok := x.Concrete(); ok {
				return lit(fmt.Sprintf("%x", c))
			}
			return ghostStr("hex", x)
		}
		return x
	case *Term:
		if x.W == 0 {
			if x.Const {
				return lit(fmt.Sprint(x.IsTrue()))
			}
			return ghostStr("fmtbool", x)
		}
		signed := true
		if t != nil {
			_, signed, _ = intInfo(t)
		}
		if x.Const {
			f := "%" + flags + string(verb)
			if verb == 'v' || verb == 's' {
				f = "%" + flags + "d"
			}
			if signed {
				return lit(fmt.Sprintf(f, x.Int()))
			}
			return lit(fmt.Sprintf(f, x.Uint()))
		}
		if verb == 'x' && flags == "04" && x.W == 8 {
			hexd := func(n *Term) *Term {
				return Ite(ULt(n, BVu(8, 10)), Add(n, BVu(8, '0')), Add(n, BVu(8, 'a'-10)))
			}
			return &Str{Kind: sBytes, B: []*Term{BVu(8, '0'), BVu(8, '0'), hexd(LShr(x, BVu(8, 4))), hexd(BAnd(x, BVu(8, 15)))}}
		}
		if verb == 'c' {
			return &Str{Kind: sBytes, B: in.encodeRune(toW(x, 32, false))}
		}
		return ghostStr("itoa", x, flags+string(verb))
	case *Slice:
		if x.Ghost != nil {
			return x.Ghost
		}
		if len(x.Data) > 0 {
			if _, isT := x.Data[0].(*Term); isT && (verb == 's' || verb == 'x') {
				s := strOfSlice(in, x)
				return in.fmtTyped(verb, flags, s, nil)
			}
		}
		return lit("[...]")
	case *Flt:
		if !x.IsSym {
			return lit(fmt.Sprintf("%"+flags+string(verb), x.C))
		}
		return lit("<float>")
	case nil:
		return lit("<nil>")
	}
	return lit(fmt.Sprintf("<%T>", a))
}

func (in *Interp) sprintf(format string, args []value) *Str {
	var parts []*Str
	ai := 0
	i := 0
	for i < len(format) {
		j := strings.IndexByte(format[i:], '%')
		if j < 0 {
			parts = append(parts, lit(format[i:]))
			break
		}
		parts = append(parts, lit(format[i:i+j]))
		i += j + 1
		if i >= len(format) {
			break
		}
		k := i
		for k < len(format) && strings.IndexByte("+-# 0123456789.", format[k]) >= 0 {
			k++
		}
		if k >= len(format) {
			break
		}
		flags := format[i:k]
		verb := format[k]
		i = k + 1
		if verb == '%' {
			parts = append(parts, lit("%"))
			continue
		}
		if ai >= len(args) {
			parts = append(parts, lit("%!"+string(verb)+"(MISSING)"))
			continue
		}
		parts = append(parts, in.fmtArg(verb, flags, args[ai]))
		ai++
	}
	return concatStr(parts...)
}

func variadic(v value) []value {
	s, ok := v.(*Slice)
	if !ok || s == nil {
		return nil
	}
	return s.Data
}

func init() {
	reg("fmt.Errorf", func(in *Interp, fn *ssa.Function, args []value) (value, bool) {
		f := args[0].(*Str).MustConcrete("format")
		return in.mkError(in.sprintf(f, variadic(args[1]))), true
	})
	reg("fmt.Sprintf", func(in *Interp, fn *ssa.Function, args []value) (value, bool) {
		fs := args[0].(*Str)
		if _, ok := fs.Concrete(); !ok && len(variadic(args[1])) == 0 {
			return in.sprintfOpaqueFormat(fs), true
		}
		f := fs.MustConcrete("format")
		return in.sprintf(f, variadic(args[1])), true
	})
	reg("fmt.Sprint", func(in *Interp, fn *ssa.Function, args []value) (value, bool) {
		var parts []*Str
		for _, a := range variadic(args[0]) {
			parts = append(parts, in.fmtArg('v', "", a))
		}
		return concatStr(parts...), true
	})
	regs([]string{"fmt.Println", "fmt.Printf", "fmt.Print"}, func(in *Interp, fn *ssa.Function, args []value) (value, bool) {
		return Tuple{BVu(64, 0), Iface{}}, true
	})
	// github.com/pkg/errors
	reg("github.com/pkg/errors.New", func(in *Interp, fn *ssa.Function, args []value) (value, bool) {
		return in.mkError(args[0].(*Str)), true
	})
	reg("github.com/pkg/errors.Errorf", func(in *Interp, fn *ssa.Function, args []value) (value, bool) {
		f := args[0].(*Str).MustConcrete("format")
		return in.mkError(in.sprintf(f, variadic(args[1]))), true
	})
	wrap := func(in *Interp, fn *ssa.Function, args []value) (value, bool) {
		e := args[0].(Iface)
		if e.T == nil {
			return Iface{}, true
		}
		var msg *Str
		if fn.Name() == "Wrapf" || fn.Name() == "WithMessagef" {
			msg = in.sprintf(args[1].(*Str).MustConcrete("format"), variadic(args[2]))
		} else {
			msg = args[1].(*Str)
		}
		return in.mkError(concatStr(msg, lit(": "), in.errMsg(e))), true
	}
	regs([]string{"github.com/pkg/errors.Wrap", "github.com/pkg/errors.Wrapf", "github.com/pkg/errors.WithMessage", "github.com/pkg/errors.WithMessagef"}, wrap)
	reg("github.com/pkg/errors.WithStack", func(in *Interp, fn *ssa.Function, args []value) (value, bool) { return args[0], true })
}

func init() {
	fprint := func(formatted bool) summaryFn {
		return func(in *Interp, fn *ssa.Function, args []value) (value, bool) {
			w := args[0].(Iface)
			if w.T == nil {
				panic(targetPanic{Msg: "nil pointer dereference (Fprintf to nil writer)"})
			}
			var s *Str
			if formatted {
				s = in.sprintf(args[1].(*Str).MustConcrete("format"), variadic(args[2]))
			} else {
				var parts []*Str
				for _, a := range variadic(args[1]) {
					parts = append(parts, in.fmtArg('v', "", a))
				}
				s = concatStr(parts...)
			}
			m := in.findMethod(w.T, "Write")
			if m == nil {
				panic(engineErr("Fprintf: writer %v has no Write method", w.T))
			}
			res := in.callFn(in.curFrame, 0, m, []value{w.V, sliceOfStr(s)})
			return res, true
		}
	}
	reg("fmt.Fprintf", fprint(true))
	reg("fmt.Fprint", fprint(false))
	reg("fmt.Sprintln", func(in *Interp, fn *ssa.Function, args []value) (value, bool) {
		var parts []*Str
		for i, a := range variadic(args[0]) {
			if i > 0 {
				parts = append(parts, lit(" "))
			}
			parts = append(parts, in.fmtArg('v', "", a))
		}
		parts = append(parts, lit("\n"))
		return concatStr(parts...), true
	})
}

// sprintfOpaqueFormat: data used as the format string with no arguments: every '%' in it is rewritten by fmt
// (e.g. "%20h" -> "%!h(MISSING)"); literal parts are formatted for real, string leaves of opaque JSON parts
// that contain '%' are replaced by their rewritten text.
func (in *Interp) sprintfOpaqueFormat(f *Str) *Str {
	var out []*Str
	for _, p := range parts(f) {
		if c, ok := p.Concrete(); ok {
			out = append(out, lit(fmt.Sprintf(c)))
			continue
		}
		if p.Kind == sGhost && (p.G.Ctor == "json" || p.G.Ctor == "canon") {
			t := mangleTree(p.G.Args[0].(*JNode))
			if p.G.Ctor == "canon" {
				out = append(out, mkJSONBytes(t, "canon"))
			} else {
				out = append(out, mkJSONBytes(t, p.G.Args[1].(string)))
			}
			continue
		}
		out = append(out, p)
	}
	return concatStr(out...)
}

func mangleTree(n *JNode) *JNode {
	c := *n
	switch n.Kind {
	case jStr:
		c.S = mangleStr(n.S)
	case jArr:
		c.Elems = nil
		for _, e := range n.Elems {
			c.Elems = append(c.Elems, mangleTree(e))
		}
	case jObj:
		c.Keys, c.Vals = nil, nil
		for i := range n.Keys {
			c.Keys = append(c.Keys, mangleStr(n.Keys[i]))
			c.Vals = append(c.Vals, mangleTree(n.Vals[i]))
		}
	}
	return &c
}

func mangleStr(s *Str) *Str {
	var out []*Str
	for _, p := range parts(s) {
		if c, ok := p.Concrete(); ok {
			out = append(out, lit(fmt.Sprintf(c)))
		} else {
			out = append(out, p)
		}
	}
	return concatStr(out...)
}
