package main

// SMT terms with constant folding. W==0: Bool; W>0: bit-vector of width W; W==-64: Float64.

import (
	"fmt"
	"math/big"
	"strings"
)

type Term struct {
	W     int
	Const bool
	V     *big.Int // value when Const (unsigned representation; bool 0/1)
	S     string   // SMT-LIB text
	// structure kept for a few simplifications
	zextOf     *Term // this = zero_extend(zextOf)
	exOf       *Term // this = extract[exHi:exLo](exOf)
	exHi, exLo int
	topZeroFrom int // >0: on the current path all bits at positions >= topZeroFrom are known to be zero
}

var bigOne = big.NewInt(1)

func mask(w int) *big.Int {
	m := new(big.Int).Lsh(bigOne, uint(w))
	return m.Sub(m, bigOne)
}

func bvText(w int, v *big.Int) string {
	if w%4 == 0 {
		s := v.Text(16)
		return "#x" + strings.Repeat("0", w/4-len(s)) + s
	}
	s := v.Text(2)
	return "#b" + strings.Repeat("0", w-len(s)) + s
}

func BV(w int, v *big.Int) *Term {
	x := new(big.Int).And(v, mask(w))
	return &Term{W: w, Const: true, V: x, S: bvText(w, x)}
}

func BVu(w int, v uint64) *Term { return BV(w, new(big.Int).SetUint64(v)) }
func BVi(w int, v int64) *Term {
	x := big.NewInt(v)
	if v < 0 {
		x.Add(x, new(big.Int).Lsh(bigOne, uint(w)))
	}
	return BV(w, x)
}

var tTrue = &Term{W: 0, Const: true, V: big.NewInt(1), S: "true"}
var tFalse = &Term{W: 0, Const: true, V: big.NewInt(0), S: "false"}

func Bool(b bool) *Term {
	if b {
		return tTrue
	}
	return tFalse
}

func (t *Term) IsTrue() bool  { return t.Const && t.W == 0 && t.V.Sign() != 0 }
func (t *Term) IsFalse() bool { return t.Const && t.W == 0 && t.V.Sign() == 0 }

// Uint returns the constant as uint64 (low 64 bits).
func (t *Term) Uint() uint64 { return new(big.Int).And(t.V, mask(64)).Uint64() }

// Int returns the constant interpreted as signed at its width.
func (t *Term) Int() int64 {
	return t.Signed().Int64()
}

func (t *Term) Signed() *big.Int {
	v := new(big.Int).Set(t.V)
	if t.W > 0 && v.Bit(t.W-1) == 1 {
		v.Sub(v, new(big.Int).Lsh(bigOne, uint(t.W)))
	}
	return v
}

func (t *Term) String() string { return t.S }

func sym(w int, name string) *Term { return &Term{W: w, S: name} }

func app(w int, op string, args ...*Term) *Term {
	var sb strings.Builder
	sb.WriteByte('(')
	sb.WriteString(op)
	for _, a := range args {
		sb.WriteByte(' ')
		sb.WriteString(a.S)
	}
	sb.WriteByte(')')
	return &Term{W: w, S: sb.String()}
}

// ---- boolean ----

func Not(a *Term) *Term {
	if a.Const {
		return Bool(!a.IsTrue())
	}
	if strings.HasPrefix(a.S, "(not ") {
		return &Term{W: 0, S: a.S[5 : len(a.S)-1]}
	}
	return app(0, "not", a)
}

func And(as ...*Term) *Term {
	var xs []*Term
	for _, a := range as {
		if a.IsFalse() {
			return tFalse
		}
		if !a.IsTrue() {
			xs = append(xs, a)
		}
	}
	switch len(xs) {
	case 0:
		return tTrue
	case 1:
		return xs[0]
	}
	return app(0, "and", xs...)
}

func Or(as ...*Term) *Term {
	var xs []*Term
	for _, a := range as {
		if a.IsTrue() {
			return tTrue
		}
		if !a.IsFalse() {
			xs = append(xs, a)
		}
	}
	switch len(xs) {
	case 0:
		return tFalse
	case 1:
		return xs[0]
	}
	return app(0, "or", xs...)
}

func Implies(a, b *Term) *Term { return Or(Not(a), b) }

func Ite(c, a, b *Term) *Term {
	if c.Const {
		if c.IsTrue() {
			return a
		}
		return b
	}
	if a.S == b.S {
		return a
	}
	if a.W == 0 && a.Const && b.Const {
		if a.IsTrue() { // ite c true false
			return c
		}
		return Not(c)
	}
	return app(a.W, "ite", c, a, b)
}

func Eq(a, b *Term) *Term {
	if a.W != b.W {
		panic(fmt.Sprintf("Eq width mismatch %d %d: %s %s", a.W, b.W, a.S, b.S))
	}
	if a.Const && b.Const {
		return Bool(a.V.Cmp(b.V) == 0)
	}
	if a.S == b.S {
		return tTrue
	}
	if a.W == 0 {
		if a.Const {
			if a.IsTrue() {
				return b
			}
			return Not(b)
		}
		if b.Const {
			if b.IsTrue() {
				return a
			}
			return Not(a)
		}
	}
	return app(0, "=", a, b)
}

// ---- bit-vectors ----

func bvBin(op string, a, b *Term, f func(x, y *big.Int, w int) *big.Int) *Term {
	if a.W != b.W {
		panic(fmt.Sprintf("%s width mismatch %d %d: %s %s", op, a.W, b.W, a.S, b.S))
	}
	if a.Const && b.Const && f != nil {
		if r := f(a.V, b.V, a.W); r != nil {
			return BV(a.W, r)
		}
	}
	return app(a.W, op, a, b)
}

func Add(a, b *Term) *Term {
	if a.Const && a.V.Sign() == 0 {
		return b
	}
	if b.Const && b.V.Sign() == 0 {
		return a
	}
	return bvBin("bvadd", a, b, func(x, y *big.Int, w int) *big.Int { return new(big.Int).Add(x, y) })
}
func Sub(a, b *Term) *Term {
	if b.Const && b.V.Sign() == 0 {
		return a
	}
	return bvBin("bvsub", a, b, func(x, y *big.Int, w int) *big.Int {
		r := new(big.Int).Sub(x, y)
		if r.Sign() < 0 {
			r.Add(r, new(big.Int).Lsh(bigOne, uint(w)))
		}
		return r
	})
}
func Mul(a, b *Term) *Term {
	return bvBin("bvmul", a, b, func(x, y *big.Int, w int) *big.Int { return new(big.Int).Mul(x, y) })
}
func BAnd(a, b *Term) *Term {
	return bvBin("bvand", a, b, func(x, y *big.Int, w int) *big.Int { return new(big.Int).And(x, y) })
}
func BOr(a, b *Term) *Term {
	return bvBin("bvor", a, b, func(x, y *big.Int, w int) *big.Int { return new(big.Int).Or(x, y) })
}
func BXor(a, b *Term) *Term {
	return bvBin("bvxor", a, b, func(x, y *big.Int, w int) *big.Int { return new(big.Int).Xor(x, y) })
}
func BAndNot(a, b *Term) *Term { return BAnd(a, BNot(b)) }
func BNot(a *Term) *Term {
	if a.Const {
		return BV(a.W, new(big.Int).Xor(a.V, mask(a.W)))
	}
	return app(a.W, "bvnot", a)
}
func Neg(a *Term) *Term {
	if a.Const {
		return Sub(BVu(a.W, 0), a)
	}
	return app(a.W, "bvneg", a)
}

// division: caller must have excluded zero divisor.
func UDiv(a, b *Term) *Term {
	return bvBin("bvudiv", a, b, func(x, y *big.Int, w int) *big.Int {
		if y.Sign() == 0 {
			return nil
		}
		return new(big.Int).Div(x, y)
	})
}
func URem(a, b *Term) *Term {
	return bvBin("bvurem", a, b, func(x, y *big.Int, w int) *big.Int {
		if y.Sign() == 0 {
			return nil
		}
		return new(big.Int).Mod(x, y)
	})
}
func SDiv(a, b *Term) *Term {
	if a.Const && b.Const && b.V.Sign() != 0 {
		return BV(a.W, twos(new(big.Int).Quo(a.Signed(), b.Signed()), a.W))
	}
	return app(a.W, "bvsdiv", a, b)
}
func SRem(a, b *Term) *Term {
	if a.Const && b.Const && b.V.Sign() != 0 {
		return BV(a.W, twos(new(big.Int).Rem(a.Signed(), b.Signed()), a.W))
	}
	return app(a.W, "bvsrem", a, b)
}

func twos(v *big.Int, w int) *big.Int {
	if v.Sign() < 0 {
		return new(big.Int).Add(v, new(big.Int).Lsh(bigOne, uint(w)))
	}
	return v
}

// shifts: b already converted to a's width (unsigned amount).
func Shl(a, b *Term) *Term {
	if a.Const && b.Const {
		if b.V.Cmp(big.NewInt(int64(a.W))) >= 0 {
			return BVu(a.W, 0)
		}
		return BV(a.W, new(big.Int).Lsh(a.V, uint(b.V.Uint64())))
	}
	return app(a.W, "bvshl", a, b)
}
func LShr(a, b *Term) *Term {
	if a.Const && b.Const {
		if b.V.Cmp(big.NewInt(int64(a.W))) >= 0 {
			return BVu(a.W, 0)
		}
		return BV(a.W, new(big.Int).Rsh(a.V, uint(b.V.Uint64())))
	}
	return app(a.W, "bvlshr", a, b)
}
func AShr(a, b *Term) *Term {
	if a.Const && b.Const {
		sh := uint(a.W)
		if b.V.Cmp(big.NewInt(int64(a.W))) < 0 {
			sh = uint(b.V.Uint64())
		}
		return BV(a.W, twos(new(big.Int).Rsh(a.Signed(), sh), a.W))
	}
	return app(a.W, "bvashr", a, b)
}

func cmpOp(op string, a, b *Term, f func(c int) bool, signed bool) *Term {
	if a.W != b.W {
		panic(fmt.Sprintf("%s width mismatch %d %d: %s %s", op, a.W, b.W, a.S, b.S))
	}
	if a.Const && b.Const {
		if signed {
			return Bool(f(a.Signed().Cmp(b.Signed())))
		}
		return Bool(f(a.V.Cmp(b.V)))
	}
	return app(0, op, a, b)
}
func ULt(a, b *Term) *Term { return cmpOp("bvult", a, b, func(c int) bool { return c < 0 }, false) }
func ULe(a, b *Term) *Term { return cmpOp("bvule", a, b, func(c int) bool { return c <= 0 }, false) }
func SLt(a, b *Term) *Term { return cmpOp("bvslt", a, b, func(c int) bool { return c < 0 }, true) }
func SLe(a, b *Term) *Term { return cmpOp("bvsle", a, b, func(c int) bool { return c <= 0 }, true) }

func ZExt(a *Term, w int) *Term {
	if w == a.W {
		return a
	}
	if w < a.W {
		return Extract(a, w-1, 0)
	}
	if a.Const {
		return BV(w, a.V)
	}
	if a.zextOf != nil {
		a = a.zextOf
	}
	return &Term{W: w, S: fmt.Sprintf("((_ zero_extend %d) %s)", w-a.W, a.S), zextOf: a}
}
func SExt(a *Term, w int) *Term {
	if w == a.W {
		return a
	}
	if w < a.W {
		return Extract(a, w-1, 0)
	}
	if a.Const {
		return BV(w, twos(a.Signed(), w))
	}
	return &Term{W: w, S: fmt.Sprintf("((_ sign_extend %d) %s)", w-a.W, a.S)}
}
func Extract(a *Term, hi, lo int) *Term {
	if hi == a.W-1 && lo == 0 {
		return a
	}
	if a.Const {
		return BV(hi-lo+1, new(big.Int).Rsh(a.V, uint(lo)))
	}
	if a.zextOf != nil {
		in := a.zextOf
		if hi < in.W {
			return Extract(in, hi, lo)
		}
		if lo >= in.W {
			return BVu(hi-lo+1, 0)
		}
	}
	if a.exOf != nil {
		return Extract(a.exOf, a.exLo+hi, a.exLo+lo)
	}
	return &Term{W: hi - lo + 1, S: fmt.Sprintf("((_ extract %d %d) %s)", hi, lo, a.S), exOf: a, exHi: hi, exLo: lo}
}
func Concat(a, b *Term) *Term {
	if a.exOf != nil && b.exOf != nil && a.exOf == b.exOf && a.exLo == b.exHi+1 {
		return Extract(a.exOf, a.exHi, b.exLo)
	}
	if a.exOf != nil && b.exOf == nil && !b.Const && a.exOf == b && a.exLo == b.W {
		// extract[hi:W](t) ++ t  (cannot happen: extract beyond width) - kept for symmetry
	}
	if a.Const && b.Const {
		return BV(a.W+b.W, new(big.Int).Or(new(big.Int).Lsh(a.V, uint(b.W)), b.V))
	}
	return app(a.W+b.W, "concat", a, b)
}
