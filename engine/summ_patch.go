package main

import (
	"strings"

	"golang.org/x/tools/go/ssa"
)

// firstByte of an encoder output, when determined by its structure.
func ghostFirstByte(s *Str) (*Term, bool) {
	switch s.Kind {
	case sBytes:
		if len(s.B) > 0 {
			return s.B[0], true
		}
	case sConcat:
		return ghostFirstByte(s.Parts[0])
	case sGhost:
		if s.G.Ctor == "json" || s.G.Ctor == "canon" {
			t := s.G.Args[0].(*JNode)
			switch t.Kind {
			case jObj:
				return BVu(8, '{'), true
			case jArr:
				return BVu(8, '['), true
			case jStr:
				return BVu(8, '"'), true
			case jNull:
				return BVu(8, 'n'), true
			case jBool:
				return Ite(t.B, BVu(8, 't'), BVu(8, 'f')), true
			case jNum:
				if !t.N.IsSym && t.N.C >= 0 && t.N.C < 10 && t.N.C == float64(int(t.N.C)) {
					return BVu(8, uint64('0'+int(t.N.C))), true
				}
				return BVu(8, '1'), true // a digit or sign: never '[' '{' or whitespace
			}
		}
	}
	return nil, false
}

type replacerVal struct {
	pairs  []string
	native *strings.Replacer
}

func init() {
	evp := "github.com/evanphx/json-patch"
	reg("(*"+evp+".lazyNode).UnmarshalJSON", func(in *Interp, fn *ssa.Function, args []value) (value, bool) {
		data := args[1].(*Slice)
		if data.Ghost == nil {
			return nil, false
		}
		p := args[0].(*value)
		st := (*p).(Struct)
		raw := new(value)
		*raw = &Slice{Ghost: data.Ghost}
		in.store(&st[0], raw)
		in.store(&st[3], BVu(64, 0))
		return Iface{}, true
	})
	reg("encoding/json.Compact", func(in *Interp, fn *ssa.Function, args []value) (value, bool) {
		dst := args[0].(*value)
		src := strOfSlice(in, args[1].(*Slice))
		tree, ok := in.bytesToTree(src)
		if !ok {
			return in.mkErrorf("invalid JSON"), true
		}
		st := (*dst).(Struct)
		var out *Str
		if txt, okc := renderJSON(tree, false); okc && !hasNumber(tree) {
			out = lit(txt)
		} else {
			out = mkJSONBytes(tree, "compact")
		}
		cur := st[0].(*Slice)
		if cur.Ghost != nil || len(cur.Data) > 0 {
			out = concatStr(strOfSlice(in, cur), out)
		}
		in.store(&st[0], sliceOfStr(out))
		return Iface{}, true
	})
	reg("strings.NewReplacer", func(in *Interp, fn *ssa.Function, args []value) (value, bool) {
		var pairs []string
		for _, e := range args[0].(*Slice).Data {
			pairs = append(pairs, e.(*Str).MustConcrete("replacer pair"))
		}
		slot := new(value)
		*slot = &replacerVal{pairs: pairs, native: strings.NewReplacer(pairs...)}
		return slot, true
	})
	reg("(*strings.Replacer).Replace", func(in *Interp, fn *ssa.Function, args []value) (value, bool) {
		rv := (*(args[0].(*value))).(*replacerVal)
		s := args[1].(*Str)
		if c, ok := s.Concrete(); ok {
			return lit(rv.native.Replace(c)), true
		}
		if s.Kind != sBytes {
			// opaque parts: assumed free of the patterns
			in.summUsed["assumption: opaque strings contain no replacer patterns"] = true
			return s, true
		}
		b := s.B
		var out []*Term
		i := 0
		for i < len(b) {
			matched := false
			for k := 0; k+1 < len(rv.pairs); k += 2 {
				old, nw := lit(rv.pairs[k]).B, lit(rv.pairs[k+1]).B
				if len(old) == 0 || i+len(old) > len(b) {
					continue
				}
				if in.branch(matchAt(b, old, i)) {
					out = append(out, nw...)
					i += len(old)
					matched = true
					break
				}
			}
			if !matched {
				out = append(out, b[i])
				i++
			}
		}
		return &Str{Kind: sBytes, B: out}, true
	})
}
