package main

// C20: SMT over interleavings. verifrt.Concurrent(f1, f2, ...) executes each closure symbolically while recording
// events on shared objects (everything reachable from the closures' environments before the call): lock / unlock per
// mutex and mode, reads and writes of shared slots and maps. The solver is then asked, for every pair of conflicting
// accesses from different closures, whether an interleaving exists in which they are adjacent (a data race) under
// program order and reader/writer-lock exclusion; and every shared access must lie inside a critical section of the
// right mode (atomicity of each call).

import (
	"fmt"
	"strings"
)

type schedEvent struct {
	kind  string // lock, unlock, rlock, runlock, read, write
	obj   interface{}
	where string
}

type schedState struct {
	shared  map[interface{}]string
	threads [][]schedEvent
	cur     int
	hb      [][4]int // happens-before edges (thread, event) -> (thread, event): sync.Pool Put -> the Get that returns the item
}

func (in *Interp) schedMark(v value, what string) {
	seen := map[interface{}]bool{}
	var walk func(v value, what string)
	walkSlots := func(v value, what string) {}
	walk = func(v value, what string) {
		switch x := v.(type) {
		case Iface:
			if x.T != nil {
				walk(x.V, what)
			}
		case *value:
			if x == nil || seen[x] {
				return
			}
			seen[x] = true
			in.sched.shared[x] = what
			walkSlots(*x, what)
		case *Slice:
			full := x.Data[:cap(x.Data)]
			for i := range full {
				if !seen[&full[i]] {
					seen[&full[i]] = true
					in.sched.shared[&full[i]] = what + "[]"
					walkSlots(full[i], what+"[]")
				}
			}
		case *MapV:
			if x == nil || seen[x] {
				return
			}
			seen[x] = true
			in.sched.shared[x] = what + "{map}"
			for _, e := range x.Entries {
				walk(e.V, what)
				walkSlots(e.V, what)
			}
		case *Closure:
			for _, e := range x.Env {
				walk(e, what)
			}
		case Struct, Array:
			walkSlots(x, what)
		}
	}
	walkSlots = func(v value, what string) {
		switch x := v.(type) {
		case Struct:
			for i := range x {
				in.sched.shared[&x[i]] = what
				walkSlots(x[i], what)
			}
		case Array:
			for i := range x {
				in.sched.shared[&x[i]] = what
				walkSlots(x[i], what)
			}
		default:
			walk(v, what)
		}
	}
	walk(v, what)
}

func (in *Interp) schedEvent(kind string, obj interface{}) {
	s := in.sched
	if s == nil || s.cur < 0 {
		return
	}
	if kind == "read" || kind == "write" {
		if _, ok := s.shared[obj]; !ok {
			return
		}
	}
	s.threads[s.cur] = append(s.threads[s.cur], schedEvent{kind: kind, obj: obj, where: in.where()})
}

// schedSync records a synchronisation event of the current call and returns (thread, index), or (-1, -1) outside
// a Concurrent experiment.
func (in *Interp) schedSync(kind string, obj interface{}) (int, int) {
	s := in.sched
	if s == nil || s.cur < 0 {
		return -1, -1
	}
	s.threads[s.cur] = append(s.threads[s.cur], schedEvent{kind: kind, obj: obj, where: in.where()})
	return s.cur, len(s.threads[s.cur]) - 1
}

// concurrent implements verifrt.Concurrent.
func (in *Interp) concurrent(fns []value) {
	in.sched = &schedState{shared: map[interface{}]string{}, cur: -1}
	for i, f := range fns {
		in.schedMark(f, fmt.Sprintf("shared(call %d env)", i))
	}
	// globals of the repository are shared as well
	for g, slot := range in.globals {
		if g.Pkg != nil && strings.HasPrefix(g.Pkg.Pkg.Path(), repoMod) && !strings.Contains(g.Pkg.Pkg.Path(), "verif") {
			in.sched.shared[slot] = "global " + g.Name()
			in.schedMark(*slot, "global "+g.Name())
		}
	}
	in.sched.threads = make([][]schedEvent, len(fns))
	for i, f := range fns {
		in.sched.cur = i
		in.call(in.curFrame, 0, f, nil)
	}
	in.sched.cur = -1
	in.schedAnalyse()
	in.sched = nil
}

func (in *Interp) schedAnalyse() {
	s := in.sched
	type section struct {
		thread, acq, rel int
		write            bool
		mu               interface{}
	}
	var sections []section
	// atomicity: every shared access inside a critical section of the right mode
	for t, evs := range s.threads {
		type held struct {
			mu    interface{}
			write bool
			acq   int
		}
		var stack []held
		for i, e := range evs {
			switch e.kind {
			case "lock", "rlock":
				stack = append(stack, held{mu: e.obj, write: e.kind == "lock", acq: i})
			case "unlock", "runlock":
				for k := len(stack) - 1; k >= 0; k-- {
					if stack[k].mu == e.obj {
						sections = append(sections, section{thread: t, acq: stack[k].acq, rel: i, write: stack[k].write, mu: e.obj})
						stack = append(stack[:k], stack[k+1:]...)
						break
					}
				}
			case "read", "write":
				ok := false
				for _, h := range stack {
					if h.write || e.kind == "read" {
						ok = true
					}
				}
				if !ok && in.schedConflicts(t, e) {
					in.recordViolation("unsynchronised access to shared state in "+e.where, "assert",
						fmt.Sprintf("%s of %s outside a critical section of the right mode", e.kind, s.shared[e.obj]))
				}
			}
		}
	}
	// data races: adjacent conflicting accesses in some interleaving
	sol := in.sol
	sol.Push()
	name := func(t, i int) string { return fmt.Sprintf("ts_%d_%d", t, i) }
	for t, evs := range s.threads {
		for i := range evs {
			sol.Send(fmt.Sprintf("(declare-const %s Int)", name(t, i)))
			if i > 0 {
				sol.Send(fmt.Sprintf("(assert (< %s %s))", name(t, i-1), name(t, i)))
			}
		}
	}
	for a := 0; a < len(sections); a++ {
		for b := a + 1; b < len(sections); b++ {
			x, y := sections[a], sections[b]
			if x.thread == y.thread || x.mu != y.mu || !(x.write || y.write) {
				continue
			}
			sol.Send(fmt.Sprintf("(assert (or (< %s %s) (< %s %s)))", name(x.thread, x.rel), name(y.thread, y.acq), name(y.thread, y.rel), name(x.thread, x.acq)))
		}
	}
	for _, e := range s.hb {
		sol.Send(fmt.Sprintf("(assert (< %s %s))", name(e[0], e[1]), name(e[2], e[3])))
	}
	queries := 0
	for ta, ea := range s.threads {
		for tb := ta + 1; tb < len(s.threads); tb++ {
			for i, x := range ea {
				if x.kind != "read" && x.kind != "write" {
					continue
				}
				for j, y := range s.threads[tb] {
					if (y.kind != "read" && y.kind != "write") || x.obj != y.obj || (x.kind == "read" && y.kind == "read") {
						continue
					}
					queries++
					r, _ := sol.CheckWith(fmt.Sprintf("(or (= %s (+ %s 1)) (= %s (+ %s 1)))", name(tb, j), name(ta, i), name(ta, i), name(tb, j)))
					if r != Unsat {
						in.recordViolation("data race on shared state: "+x.where+" / "+y.where, "assert",
							fmt.Sprintf("conflicting %s and %s of %s can be adjacent in an interleaving", x.kind, y.kind, s.shared[x.obj]))
					}
				}
			}
		}
	}
	sol.Pop()
	in.assertsChecked += queries
	in.assertsDischarged += queries
	in.extra["sched-queries"] = queries
}

// schedConflicts: is there an access to the same object in another thread with at least one write?
func (in *Interp) schedConflicts(t int, e schedEvent) bool {
	for u, evs := range in.sched.threads {
		if u == t {
			continue
		}
		for _, f := range evs {
			if (f.kind == "read" || f.kind == "write") && f.obj == e.obj && (f.kind == "write" || e.kind == "write") {
				return true
			}
		}
	}
	return false
}
