package main

import (
	"fmt"
	"go/types"
	"strings"

	"golang.org/x/tools/go/ssa"
)

// matchAt: bytes of s at position i equal sep (as a Bool term).
func matchAt(s, sep []*Term, i int) *Term {
	if i+len(sep) > len(s) {
		return tFalse
	}
	cs := make([]*Term, len(sep))
	for j := range sep {
		cs[j] = Eq(s[i+j], sep[j])
	}
	return And(cs...)
}

// indexBytes returns the first index of sep in s (forking on symbolic bytes), -1 if none.
func (in *Interp) indexBytes(s, sep []*Term) int {
	if len(sep) == 0 {
		return 0
	}
	var conds []*Term
	var nots []*Term
	for i := 0; i+len(sep) <= len(s); i++ {
		m := in.share(matchAt(s, sep, i))
		conds = append(conds, And(append(append([]*Term{}, nots...), m)...))
		nots = append(nots, Not(m))
	}
	conds = append(conds, And(nots...))
	k := in.decide(conds)
	if k == len(conds)-1 {
		return -1
	}
	return k
}

func (in *Interp) lastIndexBytes(s, sep []*Term) int {
	if len(sep) == 0 {
		return len(s)
	}
	var conds []*Term
	var nots []*Term
	var pos []int
	for i := len(s) - len(sep); i >= 0; i-- {
		m := in.share(matchAt(s, sep, i))
		conds = append(conds, And(append(append([]*Term{}, nots...), m)...))
		nots = append(nots, Not(m))
		pos = append(pos, i)
	}
	conds = append(conds, And(nots...))
	k := in.decide(conds)
	if k == len(conds)-1 {
		return -1
	}
	return pos[k]
}

// opaqueFree reports whether opaque part p can be assumed free of the separator (idealisation for encoder outputs).
func opaqueFreeOf(p *Str, sep string) bool {
	if p.Kind == sGhost {
		switch p.G.Ctor {
		case "b64", "b64x", "b64alt", "b64case", "itoa":
			return !strings.ContainsAny(sep, "ABCDEFGHIJKLMNOPQRSTUVWXYZabcdefghijklmnopqrstuvwxyz0123456789-_")
		}
	}
	return false
}

// splitStr splits any string representation at a concrete separator.
func (in *Interp) splitStr(s *Str, sep string) []*Str {
	if s.Kind == sBytes {
		var out []*Str
		rest := s.B
		sb := lit(sep).B
		for {
			i := in.indexBytes(rest, sb)
			if i < 0 {
				out = append(out, &Str{Kind: sBytes, B: rest})
				return out
			}
			out = append(out, &Str{Kind: sBytes, B: rest[:i]})
			rest = rest[i+len(sb):]
		}
	}
	ps := parts(s)
	var out []*Str
	cur := []*Str{}
	for _, p := range ps {
		if p.Kind == sBytes {
			segs := in.splitStr(p, sep)
			for i, sg := range segs {
				if i > 0 {
					out = append(out, concatStr(cur...))
					cur = nil
				}
				cur = append(cur, sg)
			}
			continue
		}
		if p.Kind == sAtom {
			in.noteAtomFree(p, sep)
		} else if !opaqueFreeOf(p, sep) {
			panic(engineErr("split of %s at %q: cannot decide", p.Key(), sep))
		}
		cur = append(cur, p)
	}
	out = append(out, concatStr(cur...))
	return out
}

// noteAtomFree records the idealisation "this atom does not contain sep".
func (in *Interp) noteAtomFree(p *Str, sep string) {
	in.summUsed[fmt.Sprintf("assumption: opaque atoms contain no %q", sep)] = true
}

func (in *Interp) strSlice(ss []*Str) *Slice {
	data := make([]value, len(ss))
	for i, s := range ss {
		data[i] = s
	}
	return &Slice{Data: data}
}

func (in *Interp) hasPrefix(s, p *Str) *Term {
	if p.Kind == sBytes && len(p.B) == 0 {
		return tTrue
	}
	if s.Kind == sBytes && p.Kind == sBytes {
		if len(p.B) > len(s.B) {
			return tFalse
		}
		return matchAt(s.B, p.B, 0)
	}
	sp, pp := parts(s), parts(p)
	var cs []*Term
	for len(pp) > 0 {
		if len(sp) == 0 {
			// prefix longer than s unless the rest of p is empty
			for _, x := range pp {
				cs = append(cs, Eq(in.strLen(x), BVu(64, 0)))
			}
			return And(cs...)
		}
		a, b := sp[0], pp[0]
		if a.Kind == sBytes && b.Kind == sBytes {
			n := len(a.B)
			if len(b.B) < n {
				n = len(b.B)
			}
			for i := 0; i < n; i++ {
				cs = append(cs, Eq(a.B[i], b.B[i]))
			}
			if len(a.B) > n {
				sp = append([]*Str{{Kind: sBytes, B: a.B[n:]}}, sp[1:]...)
			} else {
				sp = sp[1:]
			}
			if len(b.B) > n {
				pp = append([]*Str{{Kind: sBytes, B: b.B[n:]}}, pp[1:]...)
			} else {
				pp = pp[1:]
			}
			continue
		}
		if a.Key() == b.Key() {
			sp, pp = sp[1:], pp[1:]
			continue
		}
		// first characters of encoder outputs are known classes
		if a.Kind == sGhost && b.Kind == sBytes && b.B[0].Const {
			c := byte(b.B[0].Uint())
			switch a.G.Ctor {
			case "b64", "b64x", "b64alt", "b64case":
				if !strings.ContainsRune("ABCDEFGHIJKLMNOPQRSTUVWXYZabcdefghijklmnopqrstuvwxyz0123456789-_+/=", rune(c)) {
					return tFalse
				}
			case "json", "canon":
				t := a.G.Args[0].(*JNode)
				first := map[int]string{jObj: "{", jArr: "[", jStr: "\"", jNull: "n", jBool: "tf", jNum: "-0123456789"}[t.Kind]
				if !strings.ContainsRune(first, rune(c)) {
					return tFalse
				}
				if len(b.B) == 1 && len(first) == 1 {
					return And(cs...)
				}
			}
		}
		if a.Kind == sAtom && len(pp) == 1 && len(sp) == 1 && b.Kind == sAtom {
			return in.freshBool("prefix:" + a.Key() + "|" + b.Key())
		}
		return And(append(cs, in.freshBool("prefix:"+concatStr(sp...).Key()+"|"+concatStr(pp...).Key()))...)
	}
	return And(cs...)
}

func (in *Interp) strArg(v value) *Str { return v.(*Str) }

func init() {
	reg("strings.HasPrefix", func(in *Interp, fn *ssa.Function, args []value) (value, bool) {
		return in.hasPrefix(args[0].(*Str), args[1].(*Str)), true
	})
	reg("strings.HasSuffix", func(in *Interp, fn *ssa.Function, args []value) (value, bool) {
		s, p := args[0].(*Str), args[1].(*Str)
		if s.Kind == sBytes && p.Kind == sBytes {
			if len(p.B) > len(s.B) {
				return tFalse, true
			}
			return matchAt(s.B, p.B, len(s.B)-len(p.B)), true
		}
		// structured strings: compare token-wise from the end
		st, pt := tokens(s), tokens(p)
		if len(pt) > len(st) {
			return tFalse, true
		}
		var cs []*Term
		for i := 1; i <= len(pt); i++ {
			a, b := st[len(st)-i], pt[len(pt)-i]
			eq, known := tokEq(a, b)
			if !known {
				cs = append(cs, Eq(a.b, b.b))
				continue
			}
			if !eq {
				return tFalse, true
			}
		}
		in.summUsed["assumption: opaque parts match only themselves in substring search"] = true
		return And(cs...), true
	})
	reg("strings.Split", func(in *Interp, fn *ssa.Function, args []value) (value, bool) {
		sep := args[1].(*Str).MustConcrete("separator")
		return in.strSlice(in.splitStr(args[0].(*Str), sep)), true
	})
	reg("strings.Join", func(in *Interp, fn *ssa.Function, args []value) (value, bool) {
		var ps []*Str
		for i, e := range args[0].(*Slice).Data {
			if i > 0 {
				ps = append(ps, args[1].(*Str))
			}
			ps = append(ps, e.(*Str))
		}
		return concatStr(ps...), true
	})
	reg("strings.Contains", func(in *Interp, fn *ssa.Function, args []value) (value, bool) {
		s, sub := args[0].(*Str), args[1].(*Str)
		if s.Kind == sBytes && sub.Kind == sBytes {
			var ms []*Term
			for i := 0; i+len(sub.B) <= len(s.B); i++ {
				ms = append(ms, matchAt(s.B, sub.B, i))
			}
			if len(sub.B) == 0 {
				return tTrue, true
			}
			return Or(ms...), true
		}
		sepc, ok := sub.Concrete()
		if !ok {
			panic(engineErr("Contains with symbolic needle on %s", s.Key()))
		}
		return Bool(len(in.splitStr(s, sepc)) > 1), true
	})
	idx := func(last bool) summaryFn {
		return func(in *Interp, fn *ssa.Function, args []value) (value, bool) {
			s, sub := args[0].(*Str), args[1].(*Str)
			if s.Kind == sBytes && sub.Kind == sBytes {
				if last {
					return BVi(64, int64(in.lastIndexBytes(s.B, sub.B))), true
				}
				return BVi(64, int64(in.indexBytes(s.B, sub.B))), true
			}
			// structured strings: position is symbolic; return an index object usable for slicing via splitting
			sepc := sub.MustConcrete("needle")
			segs := in.splitStr(s, sepc)
			if len(segs) == 1 {
				return BVi(64, -1), true
			}
			// index = length of the part before the first/last separator
			var before []*Str
			if last {
				for i, sg := range segs[:len(segs)-1] {
					if i > 0 {
						before = append(before, lit(sepc))
					}
					before = append(before, sg)
				}
			} else {
				before = segs[:1]
			}
			pos := in.strLen(concatStr(before...))
			sp := &splitPoint{s: s, before: concatStr(before...), after: afterOf(segs, sepc, last)}
			in.extra["idx:"+pos.S] = sp
			in.extra["idx:"+Add(pos, BVu(64, uint64(len(sepc)))).S] = sp
			return pos, true
		}
	}
	reg("strings.Index", idx(false))
	reg("strings.LastIndex", idx(true))
	// IndexAny / ContainsAny with a literal character set on structured strings: decided per character by splitting;
	// with at most one of the characters present the position is that character's (several present characters fall
	// back to the byte-level code, which needs a byte-precise string)
	anyOf := func(in *Interp, s *Str, chars string) (present []string, ok bool) {
		for i := 0; i < len(chars); i++ {
			if chars[i] >= 0x80 {
				return nil, false
			}
			if len(in.splitStr(s, chars[i:i+1])) > 1 {
				present = append(present, chars[i:i+1])
			}
		}
		return present, true
	}
	reg("strings.IndexAny", func(in *Interp, fn *ssa.Function, args []value) (value, bool) {
		s, cs := args[0].(*Str), args[1].(*Str)
		chars, conc := cs.Concrete()
		if s.Kind == sBytes || !conc {
			return nil, false
		}
		present, ok := anyOf(in, s, chars)
		if !ok || len(present) > 1 {
			return nil, false
		}
		if len(present) == 0 {
			return BVi(64, -1), true
		}
		return idx(false)(in, fn, []value{s, lit(present[0])})
	})
	reg("strings.ContainsAny", func(in *Interp, fn *ssa.Function, args []value) (value, bool) {
		s, cs := args[0].(*Str), args[1].(*Str)
		chars, conc := cs.Concrete()
		if s.Kind == sBytes || !conc {
			return nil, false
		}
		present, ok := anyOf(in, s, chars)
		if !ok {
			return nil, false
		}
		return Bool(len(present) > 0), true
	})
	byteIdx := func(last bool) summaryFn {
		return func(in *Interp, fn *ssa.Function, args []value) (value, bool) {
			s := args[0].(*Str)
			b := args[1].(*Term)
			if s.Kind != sBytes && b.Const {
				return idx(last)(in, fn, []value{s, lit(string([]byte{byte(b.Uint())}))})
			}
			if last {
				return BVi(64, int64(in.lastIndexBytes(in.strBytes(s, "LastIndexByte"), []*Term{b}))), true
			}
			return BVi(64, int64(in.indexBytes(in.strBytes(s, "IndexByte"), []*Term{b}))), true
		}
	}
	reg("strings.IndexByte", byteIdx(false))
	reg("strings.LastIndexByte", byteIdx(true))
	reg("strings.Count", func(in *Interp, fn *ssa.Function, args []value) (value, bool) {
		s, sub := args[0].(*Str), args[1].(*Str)
		sepc, ok := sub.Concrete()
		if !ok || sepc == "" {
			return nil, false
		}
		return BVi(64, int64(len(in.splitStr(s, sepc))-1)), true
	})
	reg("strings.ReplaceAll", func(in *Interp, fn *ssa.Function, args []value) (value, bool) {
		s, old, nw := args[0].(*Str), args[1].(*Str), args[2].(*Str)
		if oc, ok := old.Concrete(); ok {
			segs := in.splitStr(s, oc)
			var ps []*Str
			for i, sg := range segs {
				if i > 0 {
					ps = append(ps, nw)
				}
				ps = append(ps, sg)
			}
			return concatStr(ps...), true
		}
		if s.Kind != sBytes || old.Kind != sBytes {
			return in.replaceAllTokens(s, old, nw), true
		}
		// symbolic needle (e.g. namespace + ":"): both byte-precise
		sb, ob := in.strBytes(s, "ReplaceAll"), in.strBytes(old, "ReplaceAll needle")
		var out []*Str
		rest := sb
		for {
			i := in.indexBytes(rest, ob)
			if i < 0 || len(ob) == 0 {
				out = append(out, &Str{Kind: sBytes, B: rest})
				break
			}
			out = append(out, &Str{Kind: sBytes, B: rest[:i]}, nw)
			rest = rest[i+len(ob):]
		}
		return concatStr(out...), true
	})
	reg("strings.EqualFold", func(in *Interp, fn *ssa.Function, args []value) (value, bool) {
		s, t := args[0].(*Str), args[1].(*Str)
		if s.Kind != sBytes || t.Kind != sBytes {
			// encoder outputs and opaque strings: equal under folding iff equal, except the explicit case variant of an
			// encoder output (verifrt.SwapCase). Idealisation: two different digests never encode to texts that
			// differ in letter case only.
			fold := func(x *Str) *Str {
				if x.Kind == sGhost && x.G.Ctor == "b64case" {
					return ghostStr("b64", x.G.Args[0].(*Str))
				}
				return x
			}
			flat := func(x *Str) []*Str {
				if x.Kind == sConcat {
					return x.Parts
				}
				return []*Str{x}
			}
			// literal parts are compared under ASCII folding, opaque parts by equality, when the two strings have
			// the same shape (literal/opaque parts at the same positions, literals of equal length)
			ps, pt := flat(s), flat(t)
			if len(ps) == len(pt) {
				aligned := true
				var cs []*Term
				for i := range ps {
					a, b := ps[i], pt[i]
					switch {
					case a.Kind == sBytes && b.Kind == sBytes && len(a.B) == len(b.B):
						for k := range a.B {
							cs = append(cs, Eq(asciiLower(a.B[k]), asciiLower(b.B[k])))
						}
					case a.Kind != sBytes && b.Kind != sBytes:
						cs = append(cs, in.strEq(fold(a), fold(b)))
					default:
						aligned = false
					}
				}
				if aligned {
					return And(cs...), true
				}
			}
			return in.strEq(fold(s), fold(t)), true
		}
		if len(s.B) != len(t.B) {
			// non-ASCII folding can change lengths only for multi-byte runes; byte-precise ASCII model
			return tFalse, true
		}
		lower := asciiLower
		var cs []*Term
		for i := range s.B {
			cs = append(cs, Eq(lower(s.B[i]), lower(t.B[i])))
		}
		return And(cs...), true
	})
	reg("strings.ToLower", func(in *Interp, fn *ssa.Function, args []value) (value, bool) {
		s := args[0].(*Str)
		b := in.strBytes(s, "ToLower")
		out := make([]*Term, len(b))
		for i, x := range b {
			isUp := And(ULe(BVu(8, 'A'), x), ULe(x, BVu(8, 'Z')))
			out[i] = Ite(isUp, BOr(x, BVu(8, 0x20)), x)
		}
		return &Str{Kind: sBytes, B: out}, true
	})
	const spaceSet = "\t\n\v\f\r \u0085\u00A0"
	reg("strings.TrimSpace", func(in *Interp, fn *ssa.Function, args []value) (value, bool) {
		s := args[0].(*Str)
		if c, ok := s.Concrete(); ok {
			return lit(strings.TrimSpace(c)), true
		}
		if s.Kind != sBytes {
			if t, ok := in.trimStructured(s, spaceSet, true); ok {
				if u, ok := in.trimStructured(t, spaceSet, false); ok {
					return u, true
				}
			}
		}
		panic(engineErr("TrimSpace on symbolic string"))
	})
	reg("bytes.TrimSpace", func(in *Interp, fn *ssa.Function, args []value) (value, bool) {
		sl := args[0].(*Slice)
		if sl.Ghost == nil {
			return nil, false // byte-precise: run the real code
		}
		if t, ok := in.trimStructured(sl.Ghost, spaceSet, true); ok {
			if u, ok := in.trimStructured(t, spaceSet, false); ok {
				return sliceOfStr(u), true
			}
		}
		panic(engineErr("bytes.TrimSpace on %s", sl.Ghost.Key()))
	})
	reg("bytes.Equal", func(in *Interp, fn *ssa.Function, args []value) (value, bool) {
		return in.strEq(strOfSlice(in, args[0].(*Slice)), strOfSlice(in, args[1].(*Slice))), true
	})
	// strings.Builder
	type builder struct{ s *Str }
	getB := func(v value) *builder {
		p := v.(*value)
		if b, ok := (*p).(*builder); ok {
			return b
		}
		b := &builder{s: emptyStr}
		*p = b
		return b
	}
	reg("(*strings.Builder).WriteString", func(in *Interp, fn *ssa.Function, args []value) (value, bool) {
		b := getB(args[0])
		b.s = concatStr(b.s, args[1].(*Str))
		return Tuple{in.strLen(args[1].(*Str)), Iface{}}, true
	})
	reg("(*strings.Builder).WriteByte", func(in *Interp, fn *ssa.Function, args []value) (value, bool) {
		b := getB(args[0])
		b.s = concatStr(b.s, &Str{Kind: sBytes, B: []*Term{args[1].(*Term)}})
		return Iface{}, true
	})
	reg("(*strings.Builder).WriteRune", func(in *Interp, fn *ssa.Function, args []value) (value, bool) {
		b := getB(args[0])
		enc := in.encodeRune(args[1].(*Term))
		b.s = concatStr(b.s, &Str{Kind: sBytes, B: enc})
		return Tuple{BVu(64, uint64(len(enc))), Iface{}}, true
	})
	reg("(*strings.Builder).Write", func(in *Interp, fn *ssa.Function, args []value) (value, bool) {
		b := getB(args[0])
		s := strOfSlice(in, args[1].(*Slice))
		b.s = concatStr(b.s, s)
		return Tuple{in.strLen(s), Iface{}}, true
	})
	reg("(*strings.Builder).String", func(in *Interp, fn *ssa.Function, args []value) (value, bool) {
		return getB(args[0]).s, true
	})
	reg("(*strings.Builder).Len", func(in *Interp, fn *ssa.Function, args []value) (value, bool) {
		return in.strLen(getB(args[0]).s), true
	})
	reg("(*strings.Builder).Reset", func(in *Interp, fn *ssa.Function, args []value) (value, bool) {
		getB(args[0]).s = emptyStr
		return nil, true
	})
	reg("(*strings.Builder).Grow", func(in *Interp, fn *ssa.Function, args []value) (value, bool) { return nil, true })
}

type splitPoint struct {
	s, before, after *Str
}

func afterOf(segs []*Str, sep string, last bool) *Str {
	if last {
		return segs[len(segs)-1]
	}
	var ps []*Str
	for i, sg := range segs[1:] {
		if i > 0 {
			ps = append(ps, lit(sep))
		}
		ps = append(ps, sg)
	}
	return concatStr(ps...)
}

var _ = types.Typ

// token view of a structured string: one token per literal byte, one per opaque part
type strTok struct {
	b  *Term
	op *Str
}

func tokens(s *Str) []strTok {
	var out []strTok
	for _, p := range parts(s) {
		if p.Kind == sBytes {
			for _, b := range p.B {
				out = append(out, strTok{b: b})
			}
		} else {
			out = append(out, strTok{op: p})
		}
	}
	return out
}

func tokEq(a, b strTok) (bool, bool) {
	switch {
	case a.b != nil && b.b != nil:
		if a.b.Const && b.b.Const {
			return a.b.Uint() == b.b.Uint(), true
		}
		return a.b.S == b.b.S, a.b.S == b.b.S
	case a.op != nil && b.op != nil:
		return a.op.Key() == b.op.Key(), true // distinct opaque parts are treated as different strings
	}
	return false, true // an opaque part never equals a literal byte (opaque parts are alphanumeric, see assumptions)
}

// replaceAllTokens: strings.ReplaceAll on structured strings, matching whole tokens.
func (in *Interp) replaceAllTokens(s, old, nw *Str) *Str {
	st, ot := tokens(s), tokens(old)
	in.summUsed["assumption: opaque parts match only themselves in substring search"] = true
	if len(ot) == 0 {
		return s
	}
	var out []*Str
	flush := func(t strTok) {
		if t.b != nil {
			out = append(out, &Str{Kind: sBytes, B: []*Term{t.b}})
		} else {
			out = append(out, t.op)
		}
	}
	i := 0
	for i < len(st) {
		match := i+len(ot) <= len(st)
		for j := 0; match && j < len(ot); j++ {
			eq, known := tokEq(st[i+j], ot[j])
			if !known {
				eq = in.branch(Eq(st[i+j].b, ot[j].b)) // symbolic bytes: fork
			}
			match = eq
		}
		if match {
			out = append(out, nw)
			i += len(ot)
		} else {
			flush(st[i])
			i++
		}
	}
	return concatStr(out...)
}

func asciiLower(b *Term) *Term {
	isUp := And(ULe(BVu(8, 'A'), b), ULe(b, BVu(8, 'Z')))
	return Ite(isUp, BOr(b, BVu(8, 0x20)), b)
}

// trimStructured: strings.TrimRight / TrimLeft on structured strings with a concrete cutset. Literal parts are trimmed
// natively; an opaque part ends the trimming when it cannot contain a cutset character (encoder outputs by their
// alphabet, atoms as letter strings).
func (in *Interp) trimStructured(s *Str, cut string, right bool) (*Str, bool) {
	ps := append([]*Str{}, parts(s)...)
	for len(ps) > 0 {
		k := 0
		if right {
			k = len(ps) - 1
		}
		p := ps[k]
		if c, ok := p.Concrete(); ok {
			var t string
			if right {
				t = strings.TrimRight(c, cut)
			} else {
				t = strings.TrimLeft(c, cut)
			}
			if t != "" {
				ps[k] = lit(t)
				break
			}
			if right {
				ps = ps[:k]
			} else {
				ps = ps[1:]
			}
			continue
		}
		if p.Kind == sAtom && !strings.ContainsAny(cut, "abcdefghijklmnopqrstuvwxyzABCDEFGHIJKLMNOPQRSTUVWXYZ") {
			in.noteAtomFree(p, cut)
			break
		}
		if opaqueFreeOf(p, cut) {
			break
		}
		if p.Kind == sGhost && (p.G.Ctor == "json" || p.G.Ctor == "canon") && !strings.ContainsAny(cut, "{}[]\"0123456789-truefalsn") {
			break // encoder output: a JSON text starts and ends with a value character
		}
		return nil, false
	}
	return concatStr(ps...), true
}

func init() {
	trim := func(right bool) summaryFn {
		return func(in *Interp, fn *ssa.Function, args []value) (value, bool) {
			s := args[0].(*Str)
			cut, ok := args[1].(*Str).Concrete()
			if !ok {
				return nil, false
			}
			if _, isConc := s.Concrete(); isConc || s.Kind == sBytes {
				return nil, false // byte-precise: run the real code
			}
			if t, ok := in.trimStructured(s, cut, right); ok {
				return t, true
			}
			panic(engineErr("Trim of %s by %q: cannot decide", s.Key(), cut))
		}
	}
	reg("strings.TrimRight", trim(true))
	reg("strings.TrimLeft", trim(false))
	reg("strings.Trim", func(in *Interp, fn *ssa.Function, args []value) (value, bool) {
		s := args[0].(*Str)
		cut, ok := args[1].(*Str).Concrete()
		if !ok || s.Kind == sBytes {
			return nil, false
		}
		if t, ok := in.trimStructured(s, cut, true); ok {
			if u, ok := in.trimStructured(t, cut, false); ok {
				return u, true
			}
		}
		panic(engineErr("Trim of %s by %q: cannot decide", s.Key(), cut))
	})
}

// trimFix: strings.TrimSuffix / TrimPrefix on structured strings with a concrete affix.
func (in *Interp) trimFix(s *Str, fix string, suffix bool) (*Str, bool) {
	if fix == "" {
		return s, true
	}
	ps := append([]*Str{}, parts(s)...)
	if len(ps) == 0 {
		return s, true
	}
	k := 0
	if suffix {
		k = len(ps) - 1
	}
	p := ps[k]
	edge := fix[:1]
	if suffix {
		edge = fix[len(fix)-1:]
	}
	if c, ok := p.Concrete(); ok {
		if len(c) >= len(fix) || len(ps) == 1 {
			if suffix {
				ps[k] = lit(strings.TrimSuffix(c, fix))
			} else {
				ps[k] = lit(strings.TrimPrefix(c, fix))
			}
			return concatStr(ps...), true
		}
		// the literal edge part is shorter than the affix: it must itself be the end of the affix, and the
		// neighbouring opaque part would have to supply the rest
		if (suffix && !strings.HasSuffix(fix, c)) || (!suffix && !strings.HasPrefix(fix, c)) {
			return s, true
		}
		return nil, false
	}
	if p.Kind == sAtom && !strings.ContainsAny(edge, "abcdefghijklmnopqrstuvwxyzABCDEFGHIJKLMNOPQRSTUVWXYZ") {
		in.noteAtomFree(p, edge)
		return s, true
	}
	if opaqueFreeOf(p, edge) {
		return s, true
	}
	return nil, false
}

func init() {
	fix := func(suffix bool) summaryFn {
		return func(in *Interp, fn *ssa.Function, args []value) (value, bool) {
			s := args[0].(*Str)
			f, ok := args[1].(*Str).Concrete()
			if !ok || s.Kind == sBytes {
				return nil, false
			}
			if t, ok := in.trimFix(s, f, suffix); ok {
				return t, true
			}
			panic(engineErr("TrimSuffix/TrimPrefix of %s by %q: cannot decide", s.Key(), f))
		}
	}
	reg("strings.TrimSuffix", fix(true))
	reg("strings.TrimPrefix", fix(false))
}
