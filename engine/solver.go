package main

// One long-lived solver process per worker; SMT-LIB2 text over stdin/stdout.

import (
	"bufio"
	"fmt"
	"io"
	"math/big"
	"os"
	"os/exec"
	"strings"
	"time"
)

type SatResult int

const (
	Unsat SatResult = iota
	Sat
	Unknown
)

func (r SatResult) String() string { return [...]string{"unsat", "sat", "unknown"}[r] }

type Solver struct {
	name    string
	cmd     *exec.Cmd
	in      *bufio.Writer
	inRaw   io.WriteCloser
	out     *bufio.Reader
	Queries int
	Errors  int
	Time    time.Duration
	log     *bufio.Writer // transcript for cross-checking (optional)
	logF    *os.File
	Answers []SatResult // answers in order (when transcript enabled)
	Dead    bool
	lastAssert string
	lines   chan string
	Paths   int
}

var solverTimeoutMs = 60000

func solverArgs(name string) (string, []string) {
	switch name {
	case "z3":
		return "/usr/bin/z3", []string{"-in", "-smt2"}
	case "z3-new":
		return "z3-new", []string{"-in", "-smt2"}
	case "cvc5":
		return "cvc5", []string{"--incremental", "--lang=smt2", "--produce-models", fmt.Sprintf("--tlimit-per=%d", solverTimeoutMs)}
	}
	panic("unknown solver " + name)
}

func NewSolver(name string, transcript string) (*Solver, error) {
	bin, args := solverArgs(name)
	cmd := exec.Command(bin, args...)
	stdin, err := cmd.StdinPipe()
	if err != nil {
		return nil, err
	}
	stdout, err := cmd.StdoutPipe()
	if err != nil {
		return nil, err
	}
	cmd.Stderr = cmd.Stdout
	if err := cmd.Start(); err != nil {
		return nil, err
	}
	s := &Solver{name: name, cmd: cmd, in: bufio.NewWriterSize(stdin, 1<<16), inRaw: stdin, out: bufio.NewReaderSize(stdout, 1<<16)}
	s.lines = make(chan string, 256)
	go func() {
		for {
			line, err := s.out.ReadString('\n')
			if err != nil {
				close(s.lines)
				return
			}
			s.lines <- line
		}
	}()
	if transcript != "" {
		f, err := os.Create(transcript)
		if err != nil {
			return nil, err
		}
		s.logF = f
		s.log = bufio.NewWriterSize(f, 1<<16)
	}
	s.Send("(set-option :produce-models true)")
	if name != "cvc5" {
		s.Send(fmt.Sprintf("(set-option :timeout %d)", solverTimeoutMs))
	} else {
		s.Send("(set-logic ALL)")
	}
	s.Send(prelude)
	return s, nil
}

// declarations shared by every path (level 0)
const prelude = `(declare-fun alen ((_ BitVec 64)) (_ BitVec 64))
(declare-fun alit ((_ BitVec 64) Int) Bool)
(declare-fun uf_validuri ((_ BitVec 64)) Bool)
(declare-fun uf_oncurve ((_ BitVec 64) (_ BitVec 528) (_ BitVec 528)) Bool)`

// transcripts for cross-checking keep the first crossLimit check-sat queries of each worker
const crossLimit = 2000

func (s *Solver) Send(line string) {
	s.in.WriteString(line)
	s.in.WriteByte('\n')
	if s.log != nil && len(s.Answers) < crossLimit {
		s.log.WriteString(line)
		s.log.WriteByte('\n')
	}
}

func (s *Solver) Close() {
	if s.Dead {
		s.inRaw.Close()
		s.cmd.Wait()
		if s.log != nil {
			s.log.Flush()
			s.logF.Close()
		}
		return
	}
	s.Send("(exit)")
	s.in.Flush()
	s.inRaw.Close()
	s.cmd.Wait()
	if s.log != nil {
		s.log.Flush()
		s.logF.Close()
	}
}

func (s *Solver) Push() { s.Send("(push 1)") }
func (s *Solver) Pop()  { s.Send("(pop 1)") }

// readAnswer reads lines until sat/unsat/unknown; any (error line => Unknown.
func (s *Solver) readLine() (string, bool) {
	select {
	case l, ok := <-s.lines:
		return l, ok
	case <-time.After(time.Duration(solverTimeoutMs+15000) * time.Millisecond):
		s.Dead = true
		s.cmd.Process.Kill()
		return "", false
	}
}

func (s *Solver) readAnswer() (SatResult, string) {
	sawErr := ""
	if s.Dead {
		return Unknown, "solver process is gone"
	}
	for {
		line, ok := s.readLine()
		if !ok {
			s.Dead = true
			return Unknown, "solver died or hung " + sawErr
		}
		line = strings.TrimSpace(line)
		switch {
		case line == "sat":
			if sawErr != "" {
				return Unknown, sawErr
			}
			return Sat, ""
		case line == "unsat":
			if sawErr != "" {
				return Unknown, sawErr
			}
			return Unsat, ""
		case line == "unknown" || line == "timeout":
			return Unknown, "unknown " + sawErr
		case strings.HasPrefix(line, "(error"):
			sawErr += line
			s.Errors++
		case line == "":
		default:
			sawErr += "unexpected: " + line
		}
	}
}

// Check runs (check-sat) in the current context.
func (s *Solver) Check() (SatResult, string) {
	s.Send("(check-sat)")
	t0 := time.Now()
	s.in.Flush()
	r, msg := s.readAnswer()
	d := time.Since(t0)
	s.Time += d
	s.Queries++
	if slowQueryLog && d > 2*time.Second {
		fmt.Fprintf(os.Stderr, "SLOW QUERY %.1fs -> %v: %s\n", d.Seconds(), r, s.lastAssert)
	}
	if s.log != nil && len(s.Answers) < crossLimit {
		s.Answers = append(s.Answers, r)
	}
	return r, msg
}

// CheckAssuming: push; assert; check; pop.
var slowQueryLog = os.Getenv("SYMGO_SLOWQ") != ""

func (s *Solver) CheckWith(assertion string) (SatResult, string) {
	if len(assertion) > 300 {
		s.lastAssert = assertion[:300]
	} else {
		s.lastAssert = assertion
	}
	s.Push()
	s.Send("(assert " + assertion + ")")
	r, m := s.Check()
	s.Pop()
	return r, m
}

// GetValues must follow a Sat answer in the same context.
func (s *Solver) GetValues(names []string) (map[string]string, error) {
	res := map[string]string{}
	const chunk = 200
	for i := 0; i < len(names); i += chunk {
		j := i + chunk
		if j > len(names) {
			j = len(names)
		}
		// do not log get-value in transcript (keeps cross-check to check-sat answers)
		line := "(get-value (" + strings.Join(names[i:j], " ") + "))\n"
		s.in.WriteString(line)
		s.in.Flush()
		txt, err := s.readSexp()
		if err != nil {
			return nil, err
		}
		sx, _, err := parseSexp(txt, 0)
		if err != nil {
			return nil, fmt.Errorf("parse get-value: %v in %q", err, txt)
		}
		for _, pair := range sx.list {
			if len(pair.list) != 2 {
				continue
			}
			res[pair.list[0].String()] = pair.list[1].String()
		}
	}
	return res, nil
}

func (s *Solver) readSexp() (string, error) {
	var sb strings.Builder
	depth := 0
	started := false
	for {
		line, ok := s.readLine()
		if !ok {
			return "", fmt.Errorf("solver died")
		}
		for _, c := range line {
			if c == '(' {
				depth++
				started = true
			} else if c == ')' {
				depth--
			}
		}
		sb.WriteString(line)
		if started && depth <= 0 {
			return sb.String(), nil
		}
	}
}

type sexp struct {
	atom string
	list []*sexp
	isL  bool
}

func (x *sexp) String() string {
	if !x.isL {
		return x.atom
	}
	var parts []string
	for _, e := range x.list {
		parts = append(parts, e.String())
	}
	return "(" + strings.Join(parts, " ") + ")"
}

func parseSexp(s string, i int) (*sexp, int, error) {
	for i < len(s) && (s[i] == ' ' || s[i] == '\n' || s[i] == '\t' || s[i] == '\r') {
		i++
	}
	if i >= len(s) {
		return nil, i, fmt.Errorf("eof")
	}
	if s[i] == '(' {
		x := &sexp{isL: true}
		i++
		for {
			for i < len(s) && (s[i] == ' ' || s[i] == '\n' || s[i] == '\t' || s[i] == '\r') {
				i++
			}
			if i >= len(s) {
				return nil, i, fmt.Errorf("eof in list")
			}
			if s[i] == ')' {
				return x, i + 1, nil
			}
			e, j, err := parseSexp(s, i)
			if err != nil {
				return nil, j, err
			}
			x.list = append(x.list, e)
			i = j
		}
	}
	j := i
	if s[i] == '"' {
		j++
		for j < len(s) && s[j] != '"' {
			j++
		}
		j++
		return &sexp{atom: s[i:j]}, j, nil
	}
	if s[i] == '|' {
		j++
		for j < len(s) && s[j] != '|' {
			j++
		}
		j++
		return &sexp{atom: s[i:j]}, j, nil
	}
	for j < len(s) && !strings.ContainsRune(" \n\t\r()", rune(s[j])) {
		j++
	}
	return &sexp{atom: s[i:j]}, j, nil
}

// parseValue converts an SMT value literal into a big.Int (bool: 0/1).
func parseValue(v string) (*big.Int, bool) {
	switch {
	case v == "true":
		return big.NewInt(1), true
	case v == "false":
		return big.NewInt(0), true
	case strings.HasPrefix(v, "#x"):
		x, ok := new(big.Int).SetString(v[2:], 16)
		return x, ok
	case strings.HasPrefix(v, "#b"):
		x, ok := new(big.Int).SetString(v[2:], 2)
		return x, ok
	case strings.HasPrefix(v, "(_ bv"):
		f := strings.Fields(v[5:])
		x, ok := new(big.Int).SetString(f[0], 10)
		return x, ok
	}
	x, ok := new(big.Int).SetString(v, 10)
	return x, ok
}
