package main

import (
	"math"
	"strconv"

	"golang.org/x/tools/go/ssa"
)

func hexVal(b *Term) (val *Term, ok *Term) {
	// value of an ASCII hex digit (8-bit) and validity
	isD := And(ULe(BVu(8, '0'), b), ULe(b, BVu(8, '9')))
	isL := And(ULe(BVu(8, 'a'), b), ULe(b, BVu(8, 'f')))
	isU := And(ULe(BVu(8, 'A'), b), ULe(b, BVu(8, 'F')))
	v := Ite(isD, Sub(b, BVu(8, '0')), Ite(isL, Sub(b, BVu(8, 'a'-10)), Sub(b, BVu(8, 'A'-10))))
	return v, Or(isD, isL, isU)
}

func init() {
	reg("strconv.ParseUint", func(in *Interp, fn *ssa.Function, args []value) (value, bool) {
		s := args[0].(*Str)
		base := in.concreteInt(args[1], "base")
		bits := in.concreteInt(args[2], "bitSize")
		if c, ok := s.Concrete(); ok {
			v, err := strconv.ParseUint(c, base, bits)
			if err != nil {
				return Tuple{BVu(64, v), in.mkErrorf("strconv.ParseUint: parsing %q: %v", c, err)}, true
			}
			return Tuple{BVu(64, v), Iface{}}, true
		}
		if s.Kind != sBytes || base != 16 || len(s.B) == 0 || len(s.B) > 16 {
			return nil, false // run the real code
		}
		b := s.B
		acc := BVu(64, 0)
		var oks []*Term
		for _, d := range b {
			v, ok := hexVal(d)
			oks = append(oks, ok)
			acc = BOr(Shl(acc, BVu(64, 4)), ZExt(v, 64))
		}
		if in.branch(And(oks...)) {
			return Tuple{acc, Iface{}}, true
		}
		return Tuple{BVu(64, 0), in.mkErrorf("strconv.ParseUint: invalid syntax")}, true
	})
	reg("strconv.ParseFloat", func(in *Interp, fn *ssa.Function, args []value) (value, bool) {
		s := args[0].(*Str)
		c, ok := s.Concrete()
		if !ok {
			panic(pathKilled{"outside the encoding: strconv.ParseFloat on symbolic text"})
		}
		f, err := strconv.ParseFloat(c, 64)
		if err != nil {
			return Tuple{&Flt{C: f}, in.mkErrorf("strconv.ParseFloat: %v", err)}, true
		}
		return Tuple{&Flt{C: f}, Iface{}}, true
	})
	reg("strconv.FormatFloat", func(in *Interp, fn *ssa.Function, args []value) (value, bool) {
		f := args[0].(*Flt)
		if f.IsSym {
			panic(pathKilled{"outside the encoding: strconv.FormatFloat on a symbolic double (digit generation)"})
		}
		return lit(strconv.FormatFloat(f.C, byte(args[1].(*Term).Uint()), in.concreteInt(args[2], "prec"), in.concreteInt(args[3], "bitSize"))), true
	})
	reg("strconv.FormatUint", func(in *Interp, fn *ssa.Function, args []value) (value, bool) {
		t := args[0].(*Term)
		if t.Const {
			return lit(strconv.FormatUint(t.Uint(), in.concreteInt(args[1], "base"))), true
		}
		return ghostStr("itoa", t, "u"), true
	})
	reg("strconv.Itoa", func(in *Interp, fn *ssa.Function, args []value) (value, bool) {
		t := args[0].(*Term)
		if t.Const {
			return lit(strconv.Itoa(int(t.Int()))), true
		}
		return ghostStr("itoa", t, "d"), true
	})
	reg("strconv.Atoi", func(in *Interp, fn *ssa.Function, args []value) (value, bool) {
		s := args[0].(*Str)
		if c, ok := s.Concrete(); ok {
			v, err := strconv.Atoi(c)
			if err != nil {
				return Tuple{BVi(64, 0), in.mkErrorf("strconv.Atoi: %v", err)}, true
			}
			return Tuple{BVi(64, int64(v)), Iface{}}, true
		}
		if s.Kind == sGhost && s.G.Ctor == "itoa" {
			return Tuple{s.G.Args[0].(*Term), Iface{}}, true
		}
		return nil, false // byte-precise symbolic text: run the real code
	})
	reg("math.Float64bits", func(in *Interp, fn *ssa.Function, args []value) (value, bool) {
		f := args[0].(*Flt)
		if !f.IsSym {
			return BVu(64, math.Float64bits(f.C)), true
		}
		if f.Bits != nil {
			return f.Bits, true
		}
		panic(engineErr("Float64bits of integer-derived symbolic float"))
	})
	reg("math.Float64frombits", func(in *Interp, fn *ssa.Function, args []value) (value, bool) {
		t := args[0].(*Term)
		if t.Const {
			return &Flt{C: math.Float64frombits(t.Uint())}, true
		}
		return &Flt{IsSym: true, Bits: t}, true
	})
}

func init() {
	for _, n := range []string{"internal/stringslite.Clone", "strings.Clone", "strconv.cloneString"} {
		reg(n, func(in *Interp, fn *ssa.Function, args []value) (value, bool) { return args[0], true })
	}
}
