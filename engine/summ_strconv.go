package main

import (
	"fmt"
	"math"
	"strconv"
	"strings"

	"golang.org/x/tools/go/ssa"
)

func hexVal(b *Term) (val *Term, ok *Term) {
	// value of an ASCII hex digit (8-bit) and validity
	isD := And(ULe(BVu(8, '0'), b), ULe(b, BVu(8, '9')))
	isL := And(ULe(BVu(8, 'a'), b), ULe(b, BVu(8, 'f')))
	isU := And(ULe(BVu(8, 'A'), b), ULe(b, BVu(8, 'F')))
	v := Ite(isD, Sub(b, BVu(8, '0')), Ite(isL, Sub(b, BVu(8, 'a'-10)), Sub(b, BVu(8, 'A'-10))))
	return v, Or(isD, isL, isU)
}

func init() {
	reg("strconv.ParseUint", func(in *Interp, fn *ssa.Function, args []value) (value, bool) {
		s := args[0].(*Str)
		base := in.concreteInt(args[1], "base")
		bits := in.concreteInt(args[2], "bitSize")
		if c, ok := s.Concrete(); ok {
			v, err := strconv.ParseUint(c, base, bits)
			if err != nil {
				return Tuple{BVu(64, v), in.mkErrorf("strconv.ParseUint: parsing %q: %v", c, err)}, true
			}
			return Tuple{BVu(64, v), Iface{}}, true
		}
		if s.Kind != sBytes || base != 16 || len(s.B) == 0 || len(s.B) > 16 {
			return nil, false // run the real code
		}
		b := s.B
		acc := BVu(64, 0)
		var oks []*Term
		for _, d := range b {
			v, ok := hexVal(d)
			oks = append(oks, ok)
			acc = BOr(Shl(acc, BVu(64, 4)), ZExt(v, 64))
		}
		if in.branch(And(oks...)) {
			return Tuple{acc, Iface{}}, true
		}
		return Tuple{BVu(64, 0), in.mkErrorf("strconv.ParseUint: invalid syntax")}, true
	})
	reg("strconv.ParseFloat", func(in *Interp, fn *ssa.Function, args []value) (value, bool) {
		s := args[0].(*Str)
		c, ok := s.Concrete()
		if !ok {
			if s.Kind == sBytes {
				return in.parseDecimalText(s.B), true
			}
			panic(pathKilled{"outside the encoding: strconv.ParseFloat on symbolic text"})
		}
		f, err := strconv.ParseFloat(c, 64)
		if err != nil {
			return Tuple{&Flt{C: f}, in.mkErrorf("strconv.ParseFloat: %v", err)}, true
		}
		return Tuple{&Flt{C: f}, Iface{}}, true
	})
	reg("strconv.FormatFloat", func(in *Interp, fn *ssa.Function, args []value) (value, bool) {
		f := args[0].(*Flt)
		if f.IsSym && f.Dec != nil {
			return in.formatDec(f, byte(args[1].(*Term).Uint()), in.concreteInt(args[2], "prec")), true
		}
		if f.IsSym {
			panic(pathKilled{"outside the encoding: strconv.FormatFloat on a symbolic double (digit generation)"})
		}
		return lit(strconv.FormatFloat(f.C, byte(args[1].(*Term).Uint()), in.concreteInt(args[2], "prec"), in.concreteInt(args[3], "bitSize"))), true
	})
	reg("strconv.FormatUint", func(in *Interp, fn *ssa.Function, args []value) (value, bool) {
		t := args[0].(*Term)
		if t.Const {
			return lit(strconv.FormatUint(t.Uint(), in.concreteInt(args[1], "base"))), true
		}
		return ghostStr("itoa", t, "u"), true
	})
	reg("strconv.Itoa", func(in *Interp, fn *ssa.Function, args []value) (value, bool) {
		t := args[0].(*Term)
		if t.Const {
			return lit(strconv.Itoa(int(t.Int()))), true
		}
		return ghostStr("itoa", t, "d"), true
	})
	reg("strconv.Atoi", func(in *Interp, fn *ssa.Function, args []value) (value, bool) {
		s := args[0].(*Str)
		if c, ok := s.Concrete(); ok {
			v, err := strconv.Atoi(c)
			if err != nil {
				return Tuple{BVi(64, 0), in.mkErrorf("strconv.Atoi: %v", err)}, true
			}
			return Tuple{BVi(64, int64(v)), Iface{}}, true
		}
		if s.Kind == sGhost && s.G.Ctor == "itoa" {
			return Tuple{s.G.Args[0].(*Term), Iface{}}, true
		}
		return nil, false // byte-precise symbolic text: run the real code
	})
	reg("math.Float64bits", func(in *Interp, fn *ssa.Function, args []value) (value, bool) {
		f := args[0].(*Flt)
		if !f.IsSym {
			return BVu(64, math.Float64bits(f.C)), true
		}
		if f.Bits != nil {
			return f.Bits, true
		}
		panic(engineErr("Float64bits of integer-derived symbolic float"))
	})
	reg("math.Float64frombits", func(in *Interp, fn *ssa.Function, args []value) (value, bool) {
		t := args[0].(*Term)
		if t.Const {
			return &Flt{C: math.Float64frombits(t.Uint())}, true
		}
		return &Flt{IsSym: true, Bits: t}, true
	})
}

func init() {
	for _, n := range []string{"internal/stringslite.Clone", "strings.Clone", "strconv.cloneString"} {
		reg(n, func(in *Interp, fn *ssa.Function, args []value) (value, bool) { return args[0], true })
	}
}

// formatDec: strconv.FormatFloat on a double given by its shortest decimal (digit generation itself is strconv's and
// outside the encoding; the layouts are Go's documented ones).
//
//	'e', -1: d.ddde±XX            'f', -1: positional, no exponent
//	'g', 17: the value rounded to 17 significant digits in %e layout (only met where 'e' was chosen); it has the
//	         same number of digits as the shortest form only if it is the same digits
//	'f', 0 : the exact integer value; rounding it to the shortest form's digit count gives the shortest form
func (in *Interp) formatDec(f *Flt, fmtc byte, prec int) *Str {
	d, E := f.Dec.Digits, f.Dec.E
	n := len(d)
	ch := func(c byte) *Term { return byteConst[c] }
	var out []*Term
	zeros := func(k int) {
		for i := 0; i < k; i++ {
			out = append(out, ch('0'))
		}
	}
	eForm := func(ds []*Term) {
		out = append(out, ds[0])
		if len(ds) > 1 {
			out = append(out, ch('.'))
			out = append(out, ds[1:]...)
		}
		out = append(out, ch('e'))
		e := E
		if e < 0 {
			out = append(out, ch('-'))
			e = -e
		} else {
			out = append(out, ch('+'))
		}
		t := strconv.Itoa(e)
		if len(t) < 2 {
			t = "0" + t
		}
		for i := 0; i < len(t); i++ {
			out = append(out, ch(t[i]))
		}
	}
	freshDigit := func(name string) *Term {
		t := in.newSym(8, name)
		in.assert(And(ULe(ch('0'), t), ULe(t, ch('9'))))
		return t
	}
	switch {
	case fmtc == 'e' && prec == -1:
		eForm(d)
	case fmtc == 'f' && prec == -1:
		switch {
		case E < 0:
			out = append(out, ch('0'), ch('.'))
			zeros(-E - 1)
			out = append(out, d...)
		case n <= E+1:
			out = append(out, d...)
			zeros(E + 1 - n)
		default:
			out = append(out, d[:E+1]...)
			out = append(out, ch('.'))
			out = append(out, d[E+1:]...)
		}
	case fmtc == 'g' && prec == 17:
		if n == 17 || in.branch(in.newSym(0, "g17-same-digits")) {
			eForm(d)
		} else {
			ds := make([]*Term, 17)
			for i := range ds {
				ds[i] = freshDigit(fmt.Sprintf("g17_%d", i))
			}
			eForm(ds)
		}
	case fmtc == 'f' && prec == 0 && E >= 0 && n <= E+1:
		// exact integer value: E+1 digits
		if n == E+1 {
			out = append(out, d...)
			break
		}
		out = append(out, d[:n-1]...)
		last, next := freshDigit("fix_last"), freshDigit("fix_next")
		in.assert(Or(And(Eq(last, d[n-1]), ULt(next, ch('5'))), And(Eq(Add(last, BVu(8, 1)), d[n-1]), ULe(ch('5'), next))))
		out = append(out, last, next)
		for i := n + 1; i < E+1; i++ {
			out = append(out, freshDigit(fmt.Sprintf("fix_%d", i)))
		}
	default:
		panic(pathKilled{fmt.Sprintf("outside the encoding: strconv.FormatFloat(%c, %d) on a double given by its shortest decimal", fmtc, prec)})
	}
	return &Str{Kind: sBytes, B: out}
}

// decFloat: the double with shortest decimal digits x 10^E (first digit's exponent E); see FloatFromDecimal.
func (in *Interp) decFloat(digits []*Term, E int, neg bool) *Flt {
	if E < -300 || E > 307 || len(digits) > 15 {
		panic(pathKilled{"outside the encoding: decimal number outside 15 digits / exponent -300..307"})
	}
	bits := in.newSym(64, "f64")
	lo, _ := strconv.ParseFloat(fmt.Sprintf("1e%d", E), 64)
	hi, _ := strconv.ParseFloat(fmt.Sprintf("1e%d", E+1), 64)
	in.assert(ULe(BVu(64, math.Float64bits(lo)), bits))
	in.assert(ULt(bits, BVu(64, math.Float64bits(hi))))
	// the nearest double of 10^E is the one whose shortest decimal is the single digit 1
	isPow := Eq(bits, BVu(64, math.Float64bits(lo)))
	if len(digits) == 1 {
		in.assert(Eq(isPow, Eq(digits[0], byteConst['1'])))
	} else {
		in.assert(Not(isPow))
	}
	if neg {
		bits = BXor(bits, BVu(64, 1<<63))
	}
	return &Flt{IsSym: true, Bits: bits, Dec: &DecView{Digits: digits, E: E}}
}

// parseDecimalText: strconv.ParseFloat on a byte-precise text whose symbolic bytes are decimal digits (a symbolic
// byte that may be something else ends the path as outside the encoding): [sign] digits [. digits] [e|E [sign] digits].
func (in *Interp) parseDecimalText(b []*Term) value {
	syntaxErr := func() value {
		return Tuple{&Flt{}, in.mkErrorf("strconv.ParseFloat: invalid syntax")}
	}
	isDigit := func(t *Term) bool {
		if t.Const {
			c := byte(t.Uint())
			return c >= '0' && c <= '9'
		}
		if !in.branch(And(ULe(byteConst['0'], t), ULe(t, byteConst['9']))) {
			panic(pathKilled{"outside the encoding: strconv.ParseFloat on a symbolic non-digit byte"})
		}
		return true
	}
	isC := func(t *Term, cs string) bool {
		return t.Const && strings.IndexByte(cs, byte(t.Uint())) >= 0
	}
	i, neg := 0, false
	if i < len(b) && isC(b[i], "+-") {
		neg = byte(b[i].Uint()) == '-'
		i++
	}
	var mant []*Term
	point, sawDigits := -1, false
	for i < len(b) {
		if isC(b[i], ".") {
			if point >= 0 {
				return syntaxErr()
			}
			point = len(mant)
			i++
			continue
		}
		if isC(b[i], "eE") {
			break
		}
		if b[i].Const && !isDigit(b[i]) {
			// letters (inf, nan, hex prefixes), underscores: the real parser decides on concrete text only
			panic(pathKilled{"outside the encoding: strconv.ParseFloat on a partly symbolic text with non-decimal characters"})
		}
		isDigit(b[i])
		mant = append(mant, b[i])
		sawDigits = true
		i++
	}
	if !sawDigits {
		return syntaxErr()
	}
	if point < 0 {
		point = len(mant)
	}
	exp := 0
	if i < len(b) { // exponent part, concrete
		i++
		esign := 1
		if i < len(b) && isC(b[i], "+-") {
			if byte(b[i].Uint()) == '-' {
				esign = -1
			}
			i++
		}
		if i >= len(b) {
			return syntaxErr()
		}
		for ; i < len(b); i++ {
			if !b[i].Const {
				panic(pathKilled{"outside the encoding: symbolic exponent digits"})
			}
			c := byte(b[i].Uint())
			if c < '0' || c > '9' {
				return syntaxErr()
			}
			if exp < 100000 {
				exp = exp*10 + int(c-'0')
			}
		}
		exp *= esign
	}
	isZero := func(t *Term) bool {
		if t.Const {
			return byte(t.Uint()) == '0'
		}
		return in.branch(Eq(t, byteConst['0']))
	}
	for len(mant) > 0 && isZero(mant[0]) {
		mant = mant[1:]
		point--
	}
	for len(mant) > 0 && isZero(mant[len(mant)-1]) {
		mant = mant[:len(mant)-1]
	}
	if len(mant) == 0 {
		if neg {
			return Tuple{&Flt{C: math.Copysign(0, -1)}, Iface{}}
		}
		return Tuple{&Flt{}, Iface{}}
	}
	allConst := true
	for _, t := range mant {
		allConst = allConst && t.Const
	}
	if allConst {
		panic(engineErr("parseDecimalText on concrete text"))
	}
	return Tuple{in.decFloat(mant, point-1+exp, neg), Iface{}}
}
