package main

import (
	"crypto/sha256"
	"crypto/sha512"
	"encoding/base64"
	"encoding/json"
	"fmt"
	"go/token"
)

func (in *Interp) strBytes(s *Str, what string) []*Term {
	if s.Kind == sBytes {
		return s.B
	}
	panic(engineErr("%s needs byte-precise string, got %s in %s", what, s.Key(), in.where()))
}

func (in *Interp) litIndex(s string) int {
	if i, ok := in.litIdx[s]; ok {
		return i
	}
	i := len(in.lits)
	in.lits = append(in.lits, s)
	in.litIdx[s] = i
	return i
}

func alen(id *Term) *Term { return &Term{W: 64, S: "(alen " + id.S + ")"} }

func (in *Interp) strLen(s *Str) *Term {
	switch s.Kind {
	case sBytes:
		return BVu(64, uint64(len(s.B)))
	case sAtom:
		return alen(s.Atom)
	case sGhost:
		return in.ghostLen(s)
	case sConcat:
		acc := BVu(64, 0)
		for _, p := range s.Parts {
			acc = Add(acc, in.strLen(p))
		}
		return acc
	}
	panic("strLen")
}

func (in *Interp) ghostLen(s *Str) *Term {
	g := s.G
	switch g.Ctor {
	case "casevar", "casedig":
		return in.strLen(g.Args[0].(*Str))
	case "b64", "b64alt", "b64case":
		n := in.strLen(g.Args[0].(*Str))
		return UDiv(Add(Mul(n, BVu(64, 4)), BVu(64, 2)), BVu(64, 3))
	case "sha":
		switch g.Args[0].(string) {
		case "sha256":
			return BVu(64, 32)
		case "sha384":
			return BVu(64, 48)
		case "sha512":
			return BVu(64, 64)
		}
	case "mh":
		return Add(BVu(64, 2), in.strLen(g.Args[1].(*Str)))
	}
	key := s.Key()
	if t, ok := in.glen[key]; ok {
		return t
	}
	lo, hi := BVu(64, 2), BVu(64, 1499)
	if g.Ctor == "json" || g.Ctor == "canon" {
		sp := "canon"
		if g.Ctor == "json" {
			sp = g.Args[1].(string)
		}
		if sp == "go" || sp == "canon" || sp == "compact" {
			l, h, exact := in.jsonLen(g.Args[0].(*JNode), sp)
			if exact {
				in.glen[key] = l
				return l
			}
			lo, hi = l, h
		}
	}
	t := in.newSym(64, "glen")
	in.assert(ULe(t, hi))
	in.assert(ULe(lo, t))
	in.glen[key] = t
	return t
}

// jsonLen: bounds on the length of the compact text of a JSON tree; exact when every leaf has a determinate length
// (opaque atoms, concrete strings, encoder outputs, booleans, null). Numbers take 1..25 characters, a symbolic byte
// 1..6 characters, any other opaque leaf up to 1500.
func (in *Interp) jsonLen(n *JNode, spelling string) (lo, hi *Term, exact bool) {
	k := func(v int) *Term { return BVu(64, uint64(v)) }
	switch n.Kind {
	case jNull:
		return k(4), k(4), true
	case jBool:
		if n.B.Const {
			if n.B.IsTrue() {
				return k(4), k(4), true
			}
			return k(5), k(5), true
		}
		l := Ite(n.B, k(4), k(5))
		return l, l, true
	case jNum:
		return k(1), k(25), false
	case jStr:
		return in.jsonStrLen(n.S, spelling)
	case jArr:
		base := 2
		if c := len(n.Elems); c > 1 {
			base = 2 + c - 1
		}
		lo, hi, exact = k(base), k(base), true
		for _, e := range n.Elems {
			l, h, ex := in.jsonLen(e, spelling)
			lo, hi, exact = Add(lo, l), Add(hi, h), exact && ex
		}
		return lo, hi, exact
	case jObj:
		base := 2 + len(n.Keys) // one colon per member
		if c := len(n.Keys); c > 1 {
			base += c - 1
		}
		lo, hi, exact = k(base), k(base), true
		for i := range n.Keys {
			kl, kh, ex1 := in.jsonStrLen(n.Keys[i], spelling)
			vl, vh, ex2 := in.jsonLen(n.Vals[i], spelling)
			lo, hi, exact = Add(lo, Add(kl, vl)), Add(hi, Add(kh, vh)), exact && ex1 && ex2
		}
		return lo, hi, exact
	}
	return k(1), k(1499), false
}

func (in *Interp) jsonStrLen(s *Str, spelling string) (lo, hi *Term, exact bool) {
	k := func(v int) *Term { return BVu(64, uint64(v)) }
	switch s.Kind {
	case sBytes:
		if c, ok := s.Concrete(); ok {
			if spelling == "canon" {
				l := k(len(jcsString(c)))
				return l, l, true
			}
			if b, err := json.Marshal(c); err == nil {
				l := k(len(b))
				return l, l, true
			}
		}
		return k(2 + len(s.B)), k(2 + 6*len(s.B)), false
	case sAtom:
		l := Add(k(2), alen(s.Atom)) // atoms are letter strings: nothing to escape
		return l, l, true
	case sGhost:
		switch s.G.Ctor {
		case "b64", "b64alt", "b64case", "b64x", "itoa":
			l := Add(k(2), in.strLen(s))
			return l, l, true
		}
		return k(2), k(1499), false
	case sConcat:
		lo, hi, exact = k(2), k(2), true
		for _, p := range s.Parts {
			l, h, ex := in.jsonStrLen(p, spelling)
			lo, hi, exact = Add(lo, Sub(l, k(2))), Add(hi, Sub(h, k(2))), exact && ex
		}
		return lo, hi, exact
	}
	return k(2), k(1499), false
}

func (in *Interp) freshBool(key string) *Term {
	if t, ok := in.fresh[key]; ok {
		return t
	}
	t := in.newSym(0, "eq")
	in.fresh[key] = t
	return t
}

// strEq: Go string equality as a Bool term.
func (in *Interp) strEq(a, b *Str) *Term {
	if a.Key() == b.Key() {
		return tTrue
	}
	if a.Kind > b.Kind {
		a, b = b, a
	}
	switch {
	case a.Kind == sBytes && b.Kind == sBytes:
		if len(a.B) != len(b.B) {
			return tFalse
		}
		cs := make([]*Term, len(a.B))
		for i := range a.B {
			cs[i] = Eq(a.B[i], b.B[i])
		}
		return And(cs...)
	case a.Kind == sBytes && b.Kind == sAtom:
		if len(a.B) == 0 {
			return Eq(alen(b.Atom), BVu(64, 0))
		}
		c, ok := a.Concrete()
		if !ok {
			// symbolic bytes vs atom: unconstrained but consistent
			return in.freshBool("eq:" + a.Key() + "|" + b.Key())
		}
		idx := in.litIndex(c)
		t := &Term{W: 0, S: fmt.Sprintf("(alit %s %d)", b.Atom.S, idx)}
		k := "alit:" + b.Atom.S + fmt.Sprint(idx)
		if _, done := in.fresh[k]; !done {
			in.fresh[k] = t
			in.assert(Implies(t, Eq(alen(b.Atom), BVu(64, uint64(len(c))))))
			// an atom equals at most one literal
			for j, other := range in.lits {
				if j != idx {
					if _, used := in.fresh["alit:"+b.Atom.S+fmt.Sprint(j)]; used {
						_ = other
						in.assert(Not(And(t, &Term{W: 0, S: fmt.Sprintf("(alit %s %d)", b.Atom.S, j)})))
					}
				}
			}
		}
		return t
	case a.Kind == sAtom && b.Kind == sAtom:
		return Eq(a.Atom, b.Atom)
	case a.Kind == sGhost && b.Kind == sGhost:
		return in.ghostEq(a.G, b.G)
	case a.Kind == sBytes && b.Kind == sGhost:
		if len(a.B) == 0 {
			return Eq(in.strLen(b), BVu(64, 0))
		}
		if b.G.Ctor == "json" || b.G.Ctor == "canon" {
			// structured text vs fixed bytes: decided only when lengths exclude it
			return in.freshBool("eq:" + a.Key() + "|" + b.Key())
		}
		return And(Eq(in.strLen(b), BVu(64, uint64(len(a.B)))), in.freshBool("eq:"+a.Key()+"|"+b.Key()))
	case a.Kind == sAtom && b.Kind == sGhost:
		return And(Eq(alen(a.Atom), in.strLen(b)), in.freshBool("eq:"+a.Key()+"|"+b.Key()))
	}
	// concatenations: align parts
	return in.concatEq(parts(a), parts(b))
}

func parts(s *Str) []*Str {
	if s.Kind == sConcat {
		return s.Parts
	}
	if s.Kind == sBytes && len(s.B) == 0 {
		return nil
	}
	return []*Str{s}
}

func (in *Interp) concatEq(a, b []*Str) *Term {
	var cs []*Term
	for len(a) > 0 && len(b) > 0 {
		x, y := a[0], b[0]
		if x.Kind == sBytes && y.Kind == sBytes {
			n := len(x.B)
			if len(y.B) < n {
				n = len(y.B)
			}
			for i := 0; i < n; i++ {
				cs = append(cs, Eq(x.B[i], y.B[i]))
			}
			if len(x.B) > n {
				a = append([]*Str{{Kind: sBytes, B: x.B[n:]}}, a[1:]...)
			} else {
				a = a[1:]
			}
			if len(y.B) > n {
				b = append([]*Str{{Kind: sBytes, B: y.B[n:]}}, b[1:]...)
			} else {
				b = b[1:]
			}
			continue
		}
		if x.Key() == y.Key() {
			a, b = a[1:], b[1:]
			continue
		}
		if len(a) == 1 && len(b) == 1 {
			cs = append(cs, in.strEq(x, y))
			return And(cs...)
		}
		// compare from the tail as well
		xe, ye := a[len(a)-1], b[len(b)-1]
		if xe.Key() == ye.Key() {
			a, b = a[:len(a)-1], b[:len(b)-1]
			continue
		}
		if x.Kind != sBytes && y.Kind != sBytes && len(a) == len(b) {
			// same shape assumption: opaque parts do not contain the delimiters between them
			cs = append(cs, in.strEq(x, y))
			a, b = a[1:], b[1:]
			continue
		}
		ka, kb := "", ""
		for _, p := range a {
			ka += p.Key() + "+"
		}
		for _, p := range b {
			kb += p.Key() + "+"
		}
		cs = append(cs, in.freshBool("eq:"+ka+"|"+kb))
		return And(cs...)
	}
	if len(a) == 0 && len(b) == 0 {
		return And(cs...)
	}
	rest := a
	if len(rest) == 0 {
		rest = b
	}
	// remaining parts must all be empty
	for _, p := range rest {
		if p.Kind == sBytes && len(p.B) > 0 {
			return tFalse
		}
		cs = append(cs, Eq(in.strLen(p), BVu(64, 0)))
	}
	return And(cs...)
}

func (in *Interp) ghostEq(a, b *Ghost) *Term {
	if a.Key() == b.Key() {
		return tTrue
	}
	jsonish := func(c string) bool { return c == "json" || c == "canon" }
	if jsonish(a.Ctor) && jsonish(b.Ctor) {
		te := in.jsonEq(a.Args[0].(*JNode), b.Args[0].(*JNode))
		if a.Ctor == "canon" && b.Ctor == "canon" {
			return te
		}
		if te.IsFalse() {
			return tFalse
		}
		sa, sb := "canon", "canon"
		if a.Ctor == "json" {
			sa = a.Args[1].(string)
		}
		if b.Ctor == "json" {
			sb = b.Args[1].(string)
		}
		if sa == sb {
			return te
		}
		// same value, different spellings: Go's encoder output equals the canonical form exactly when every
		// object's members are already in canonical order (no numbers, no characters Go escapes differently)
		isStd := func(x string) bool { return x == "go" || x == "canon" || x == "compact" }
		if isStd(sa) && isStd(sb) {
			ta := a.Args[0].(*JNode)
			if ord, known := membersInCanonicalOrder(ta); known && !hasNumber(ta) {
				if !ord {
					return tFalse
				}
				return te
			}
		}
		return And(te, in.freshBool("spell:"+a.Key()+"|"+b.Key()))
	}
	if a.Ctor != b.Ctor {
		return tFalse // idealisation: outputs of different encoders never coincide
	}
	if len(a.Args) != len(b.Args) {
		return tFalse
	}
	var cs []*Term
	for i := range a.Args {
		switch x := a.Args[i].(type) {
		case *Str:
			cs = append(cs, in.strEq(x, b.Args[i].(*Str)))
		case *Term:
			cs = append(cs, Eq(x, b.Args[i].(*Term)))
		case *JNode:
			cs = append(cs, in.jsonEq(x, b.Args[i].(*JNode)))
		case string:
			cs = append(cs, Bool(x == b.Args[i].(string)))
		}
	}
	return And(cs...)
}

func (in *Interp) jsonEq(a, b *JNode) *Term {
	if a.Kind != b.Kind {
		return tFalse
	}
	switch a.Kind {
	case jNull:
		return tTrue
	case jBool:
		return Eq(a.B, b.B)
	case jNum:
		return in.floatEq(a.N, b.N)
	case jStr:
		return in.strEq(a.S, b.S)
	case jArr:
		if len(a.Elems) != len(b.Elems) {
			return tFalse
		}
		var cs []*Term
		for i := range a.Elems {
			cs = append(cs, in.jsonEq(a.Elems[i], b.Elems[i]))
		}
		return And(cs...)
	case jObj:
		if len(a.Keys) != len(b.Keys) {
			return tFalse
		}
		// match members by name; concrete names are matched directly
		var cs []*Term
		used := make([]bool, len(b.Keys))
		for i, k := range a.Keys {
			found := false
			for j, k2 := range b.Keys {
				if used[j] {
					continue
				}
				if e := in.strEq(k, k2); e.IsTrue() {
					used[j] = true
					cs = append(cs, in.jsonEq(a.Vals[i], b.Vals[j]))
					found = true
					break
				}
			}
			if !found {
				// symbolic names: positional fallback
				for j := range b.Keys {
					if !used[j] {
						e := in.strEq(k, b.Keys[j])
						if e.IsFalse() {
							continue
						}
						used[j] = true
						cs = append(cs, e, in.jsonEq(a.Vals[i], b.Vals[j]))
						found = true
						break
					}
				}
			}
			if !found {
				return tFalse
			}
		}
		return And(cs...)
	}
	panic("jsonEq")
}

func (in *Interp) strCompare(op token.Token, a, b *Str) *Term {
	x, y := in.strBytes(a, "string ordering"), in.strBytes(b, "string ordering")
	// lexicographic less-than
	lt := func(x, y []*Term, orEq bool) *Term {
		res := Bool(orEq)
		if len(x) < len(y) {
			res = tTrue
		} else if len(x) > len(y) {
			res = tFalse
		}
		n := len(x)
		if len(y) < n {
			n = len(y)
		}
		for i := n - 1; i >= 0; i-- {
			res = Ite(Eq(x[i], y[i]), res, ULt(x[i], y[i]))
		}
		return res
	}
	switch op {
	case token.LSS:
		return lt(x, y, false)
	case token.LEQ:
		return lt(x, y, true)
	case token.GTR:
		return lt(y, x, false)
	case token.GEQ:
		return lt(y, x, true)
	}
	panic("strCompare")
}

// ---------- ghost constructors (concrete evaluation when possible) ----------

func mkB64(x *Str) *Str {
	if c, ok := x.Concrete(); ok {
		return lit(base64.RawURLEncoding.EncodeToString([]byte(c)))
	}
	return ghostStr("b64", x)
}

func mkSha(alg string, x *Str) *Str {
	if c, ok := x.Concrete(); ok {
		switch alg {
		case "sha256":
			h := sha256.Sum256([]byte(c))
			return lit(string(h[:]))
		case "sha384":
			h := sha512.Sum384([]byte(c))
			return lit(string(h[:]))
		case "sha512":
			h := sha512.Sum512([]byte(c))
			return lit(string(h[:]))
		}
	}
	return ghostStr("sha", alg, x)
}

func putUvarint(x uint64) []byte {
	var buf []byte
	for x >= 0x80 {
		buf = append(buf, byte(x)|0x80)
		x >>= 7
	}
	return append(buf, byte(x))
}

func mkMh(code *Term, digest *Str) *Str {
	if c, ok := digest.Concrete(); ok && code.Const {
		out := append(putUvarint(code.Uint()), putUvarint(uint64(len(c)))...)
		return lit(string(out) + c)
	}
	return ghostStr("mh", code, digest)
}

func strOfSlice(in *Interp, s *Slice) *Str {
	if s.Ghost != nil {
		return s.Ghost
	}
	b := make([]*Term, len(s.Data))
	for i, e := range s.Data {
		b[i] = e.(*Term)
	}
	return &Str{Kind: sBytes, B: b}
}

func sliceOfStr(s *Str) *Slice {
	if s.Kind != sBytes {
		return &Slice{Ghost: s}
	}
	data := make([]value, len(s.B))
	for i, b := range s.B {
		data[i] = b
	}
	return &Slice{Data: data}
}

// membersInCanonicalOrder: every object of the tree lists its members in RFC 8785 order (known=false when a
// member name is not concrete).
func membersInCanonicalOrder(n *JNode) (ordered bool, known bool) {
	switch n.Kind {
	case jArr:
		for _, e := range n.Elems {
			if o, k := membersInCanonicalOrder(e); !k || !o {
				return o, k
			}
		}
	case jObj:
		prev := ""
		for i, k := range n.Keys {
			c, ok := k.Concrete()
			if !ok {
				return false, false
			}
			if i > 0 && !utf16Less(prev, c) {
				return false, true
			}
			prev = c
		}
		for _, v := range n.Vals {
			if o, k := membersInCanonicalOrder(v); !k || !o {
				return o, k
			}
		}
	}
	return true, true
}
