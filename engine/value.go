package main

import (
	"fmt"
	"go/types"
	"sort"
	"strings"

	"golang.org/x/tools/go/ssa"
)

type value interface{}

type Struct []value
type Array []value
type Tuple []value

// Slice: Go slice of slots gives append/aliasing semantics for free.
type Slice struct {
	Data  []value
	Ghost *Str // byte slice produced by a summarised encoder (no element access)
	Nil   bool
}

type Iface struct {
	T types.Type // dynamic type; nil for nil interface
	V value
}

type Closure struct {
	Fn  *ssa.Function
	Env []value
}

// Native function value created by summaries (e.g. method values)
type NativeFn struct {
	Name string
	F    func(in *Interp, args []value) value
}

type MapEntry struct {
	K, V value
	Del  bool
}

type MapV struct {
	Entries []*MapEntry
	KeyT    types.Type
	frozen  bool
	id      int
}

// Flt models float64: concrete, or derived from a symbolic int64 (JSON numbers), or opaque symbol
type Flt struct {
	C     float64
	IsSym bool
	I     *Term    // BV64 signed integer it equals (when IsSym && I != nil)
	Bits  *Term    // BV64 bit pattern (when IsSym && Bits != nil)
	Dec   *DecView // shortest decimal representation of |x| (verifrt.FloatFromDecimal)
}

// DecView: |x| = 0.d1d2...dn x 10^(E+1) with d1, dn != 0 is the shortest decimal that round-trips to x.
type DecView struct {
	Digits []*Term // ASCII digits, symbolic
	E      int     // decimal exponent of the first digit
}

// ---------------- strings ----------------

const (
	sBytes = iota
	sAtom
	sGhost
	sConcat
)

type Str struct {
	Kind  int
	B     []*Term // sBytes
	Atom  *Term   // sAtom: BV64 identity
	Name  string  // atom name
	G     *Ghost  // sGhost
	Parts []*Str  // sConcat (flattened, no empty literals)
	key   string
}

// Ghost is the result of a summarised encoder: constructor + arguments.
type Ghost struct {
	Ctor string
	Args []interface{} // *Str, *Term, *JNode, string
	key  string
}

func lit(s string) *Str {
	b := make([]*Term, len(s))
	for i := 0; i < len(s); i++ {
		b[i] = byteConst[s[i]]
	}
	return &Str{Kind: sBytes, B: b}
}

var byteConst [256]*Term

func init() {
	for i := range byteConst {
		byteConst[i] = BVu(8, uint64(i))
	}
}

var emptyStr = lit("")

func (s *Str) Concrete() (string, bool) {
	if s.Kind != sBytes {
		return "", false
	}
	b := make([]byte, len(s.B))
	for i, t := range s.B {
		if !t.Const {
			return "", false
		}
		b[i] = byte(t.Uint())
	}
	return string(b), true
}

func (s *Str) MustConcrete(what string) string {
	c, ok := s.Concrete()
	if !ok {
		panic(engineErr("expected concrete string for %s, got %s", what, s.Key()))
	}
	return c
}

func (s *Str) Key() string {
	if s.key != "" {
		return s.key
	}
	var sb strings.Builder
	switch s.Kind {
	case sBytes:
		if c, ok := s.Concrete(); ok {
			fmt.Fprintf(&sb, "%q", c)
		} else {
			sb.WriteString("b[")
			for _, t := range s.B {
				sb.WriteString(t.S)
				sb.WriteByte(',')
			}
			sb.WriteString("]")
		}
	case sAtom:
		sb.WriteString("atom(" + s.Atom.S + ")")
	case sGhost:
		sb.WriteString(s.G.Key())
	case sConcat:
		sb.WriteString("cat(")
		for _, p := range s.Parts {
			sb.WriteString(p.Key())
			sb.WriteByte(',')
		}
		sb.WriteString(")")
	}
	s.key = sb.String()
	return s.key
}

func (g *Ghost) Key() string {
	if g.key != "" {
		return g.key
	}
	var sb strings.Builder
	sb.WriteString(g.Ctor + "(")
	for _, a := range g.Args {
		switch a := a.(type) {
		case *Str:
			sb.WriteString(a.Key())
		case *Term:
			sb.WriteString(a.S)
		case *JNode:
			sb.WriteString(a.Key(false))
		case string:
			sb.WriteString(a)
		case nil:
			sb.WriteString("nil")
		default:
			panic(fmt.Sprintf("ghost arg %T", a))
		}
		sb.WriteByte(';')
	}
	sb.WriteString(")")
	g.key = sb.String()
	return g.key
}

func ghostStr(ctor string, args ...interface{}) *Str {
	return &Str{Kind: sGhost, G: &Ghost{Ctor: ctor, Args: args}}
}

func concatStr(parts ...*Str) *Str {
	var flat []*Str
	for _, p := range parts {
		if p.Kind == sConcat {
			flat = append(flat, p.Parts...)
		} else if p.Kind == sBytes && len(p.B) == 0 {
			continue
		} else {
			flat = append(flat, p)
		}
	}
	// merge adjacent byte parts
	var out []*Str
	for _, p := range flat {
		if n := len(out); n > 0 && out[n-1].Kind == sBytes && p.Kind == sBytes {
			nb := append(append([]*Term{}, out[n-1].B...), p.B...)
			out[n-1] = &Str{Kind: sBytes, B: nb}
		} else {
			out = append(out, p)
		}
	}
	switch len(out) {
	case 0:
		return emptyStr
	case 1:
		return out[0]
	}
	return &Str{Kind: sConcat, Parts: out}
}

// ---------------- JSON trees ----------------

const (
	jNull = iota
	jBool
	jNum
	jStr
	jArr
	jObj
)

type JNode struct {
	Kind  int
	B     *Term // jBool
	N     *Flt  // jNum
	S     *Str  // jStr
	Elems []*JNode
	Keys  []*Str
	Vals  []*JNode
	// raw: the node is an un-decoded ghost (json.RawMessage content)
}

func (n *JNode) Key(sorted bool) string {
	var sb strings.Builder
	n.writeKey(&sb, sorted)
	return sb.String()
}

func (n *JNode) writeKey(sb *strings.Builder, sorted bool) {
	switch n.Kind {
	case jNull:
		sb.WriteString("null")
	case jBool:
		sb.WriteString("B" + n.B.S)
	case jNum:
		if n.N.IsSym {
			if n.N.I != nil {
				sb.WriteString("N" + n.N.I.S)
			} else {
				sb.WriteString("NB" + n.N.Bits.S)
			}
		} else {
			fmt.Fprintf(sb, "N%v", n.N.C)
		}
	case jStr:
		sb.WriteString("S" + n.S.Key())
	case jArr:
		sb.WriteString("[")
		for _, e := range n.Elems {
			e.writeKey(sb, sorted)
			sb.WriteByte(',')
		}
		sb.WriteString("]")
	case jObj:
		idx := make([]int, len(n.Keys))
		for i := range idx {
			idx[i] = i
		}
		if sorted {
			sort.SliceStable(idx, func(a, b int) bool { return n.Keys[idx[a]].Key() < n.Keys[idx[b]].Key() })
		}
		sb.WriteString("{")
		for _, i := range idx {
			sb.WriteString(n.Keys[i].Key())
			sb.WriteByte(':')
			n.Vals[i].writeKey(sb, sorted)
			sb.WriteByte(',')
		}
		sb.WriteString("}")
	}
}

func (n *JNode) Get(name string) *JNode {
	for i, k := range n.Keys {
		if c, ok := k.Concrete(); ok && c == name {
			return n.Vals[i]
		}
	}
	return nil
}

// ---------------- errors of the engine ----------------

type EngineError struct{ Msg string }

func (e *EngineError) Error() string { return e.Msg }

func engineErr(f string, a ...interface{}) *EngineError {
	return &EngineError{Msg: fmt.Sprintf(f, a...)}
}

// targetPanic: the program under analysis panicked.
type targetPanic struct {
	Msg   string
	V     value
	Fatal bool // kills the real process (stack exhaustion, out of memory): recover() does not catch it
}

// pathKilled: Assume(false) or infeasible
type pathKilled struct{ why string }
