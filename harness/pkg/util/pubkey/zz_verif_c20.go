package pubkey

import (
	"crypto/ecdsa"
	"crypto/rand"

	"github.com/btcsuite/btcd/btcec/v2"

	verifrt "github.com/trustbloc/sidetree-go/pkg/internal/verifrt"
	"github.com/trustbloc/sidetree-go/pkg/jws"
)

func c20Key(tag string) *ecdsa.PrivateKey {
	for {
		priv, err := ecdsa.GenerateKey(btcec.S256(), rand.Reader)
		verifrt.Assume(err == nil)
		x, y := priv.X.FillBytes(make([]byte, 32)), priv.Y.FillBytes(make([]byte, 32))
		if verifrt.LeadingZerosOK(tag+"-x", x) && verifrt.LeadingZerosOK(tag+"-y", y) {
			return priv
		}
	}
}

// Harness_C20_ConcurrentJWKEncoding: two goroutines convert different secp256k1 keys (coordinates with up to one
// leading zero byte, the case that takes the padding path) to JWKs at the same time: no shared state is written and
// each result equals the sequential one.
func Harness_C20_ConcurrentJWKEncoding() {
	verifrt.KeyLeadingZeros(1)
	k1, k2 := c20Key("k1"), c20Key("k2")
	verifrt.Assume(k1.X.Cmp(k2.X) != 0)
	s1, e1 := GetPublicKeyJWK(&k1.PublicKey)
	s2, e2 := GetPublicKeyJWK(&k2.PublicKey)
	var j1, j2 *jws.JWK
	var x1, x2 error
	verifrt.Concurrent(
		func() { j1, x1 = GetPublicKeyJWK(&k1.PublicKey) },
		func() { j2, x2 = GetPublicKeyJWK(&k2.PublicKey) },
	)
	verifrt.Reach("done")
	if e1 != nil || e2 != nil || x1 != nil || x2 != nil {
		verifrt.Fail("conversion of a valid key fails")
		return
	}
	verifrt.Assert(j1.X == s1.X && j1.Y == s1.Y && j2.X == s2.X && j2.Y == s2.Y, "concurrent conversions return what sequential conversions return")
}
