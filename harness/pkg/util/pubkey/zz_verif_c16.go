package pubkey

import (
	"crypto/ecdsa"
	"crypto/ed25519"
	"crypto/elliptic"
	"crypto/rand"
	"encoding/base64"
	"encoding/json"
	"math/big"

	"github.com/btcsuite/btcd/btcec/v2"

	verifrt "github.com/trustbloc/sidetree-go/pkg/internal/verifrt"
	"github.com/trustbloc/sidetree-go/pkg/jws"
	"github.com/trustbloc/sidetree-go/pkg/jwsutil"
)

func c16Curve(i int) (elliptic.Curve, string, int) {
	switch i {
	case 0:
		return elliptic.P256(), "P-256", 32
	case 1:
		return elliptic.P384(), "P-384", 48
	case 2:
		return elliptic.P521(), "P-521", 66
	}
	return btcec.S256(), "secp256k1", 32
}

func c16Key(curve elliptic.Curve, size int) *ecdsa.PrivateKey {
	for {
		priv, err := ecdsa.GenerateKey(curve, rand.Reader)
		verifrt.Assume(err == nil)
		x, y := priv.X.FillBytes(make([]byte, size)), priv.Y.FillBytes(make([]byte, size))
		if verifrt.LeadingZerosOK("key-x", x) && verifrt.LeadingZerosOK("key-y", y) {
			return priv
		}
	}
}

func parseJWK(k *jws.JWK) (*jwsutil.JWK, error) {
	b, err := json.Marshal(k)
	if err != nil {
		return nil, err
	}
	var j jwsutil.JWK
	if err := j.UnmarshalJSON(b); err != nil {
		return nil, err
	}
	return &j, nil
}

func c16EC(maxLZ int) {
	verifrt.KeyLeadingZeros(maxLZ)
	curve, name, size := c16Curve(verifrt.Choose("curve", 4))
	priv := c16Key(curve, size)
	jwk, err := GetPublicKeyJWK(&priv.PublicKey)
	if err != nil {
		verifrt.Fail("a valid EC public key cannot be converted to a JWK")
		return
	}
	verifrt.Reach("converted")
	verifrt.Assert(jwk.Kty == "EC" && jwk.Crv == name, "the JWK carries key type EC and the curve's name")
	xb, errx := base64.RawURLEncoding.DecodeString(jwk.X)
	yb, erry := base64.RawURLEncoding.DecodeString(jwk.Y)
	verifrt.Assert(errx == nil && erry == nil && len(xb) == size && len(yb) == size, "coordinates are encoded at the curve's full byte width")
	if len(xb) == size && len(yb) == size {
		verifrt.Assert(string(xb) == string(priv.X.FillBytes(make([]byte, size))) && string(yb) == string(priv.Y.FillBytes(make([]byte, size))),
			"encoded coordinates are the big-endian coordinates with leading zero bytes preserved")
	}
	back, err := parseJWK(jwk)
	if err != nil {
		verifrt.Fail("the JWK of a valid key cannot be read back")
		return
	}
	pub, ok := back.Key.(*ecdsa.PublicKey)
	verifrt.Assert(ok && pub.X.Cmp(priv.X) == 0 && pub.Y.Cmp(priv.Y) == 0 && pub.Curve == priv.Curve, "reading the JWK back yields the same key")
}

// Harness_C16_ECRoundTrip: P-256, P-384, P-521, secp256k1 keys with up to one leading zero byte per coordinate.
func Harness_C16_ECRoundTrip() { c16EC(2) }

// HarnessT_C16_ECRoundTripWide: up to three leading zero bytes.
func HarnessT_C16_ECRoundTripWide() { c16EC(3) }

// Harness_C16_Ed25519: Ed25519 keys round-trip; the JWK is OKP / Ed25519 with a 32-byte x.
func Harness_C16_Ed25519() {
	pub, _, err := ed25519.GenerateKey(rand.Reader)
	verifrt.Assume(err == nil)
	jwk, err := GetPublicKeyJWK(pub)
	if err != nil {
		verifrt.Fail("a valid Ed25519 public key cannot be converted to a JWK")
		return
	}
	verifrt.Reach("converted")
	xb, errx := base64.RawURLEncoding.DecodeString(jwk.X)
	verifrt.Assert(jwk.Kty == "OKP" && jwk.Crv == "Ed25519" && errx == nil && string(xb) == string(pub), "Ed25519 JWK: OKP / Ed25519 / x = the 32 key bytes")
	back, err := jwsutil.GetED25519PublicKey(jwk)
	verifrt.Assert(err == nil && string(back) == string(pub), "reading the Ed25519 JWK back yields the same key")
}

// Harness_C16_Reject: coordinates of the wrong width and points that are not on the named curve are rejected.
func Harness_C16_Reject() {
	curve, name, size := c16Curve(verifrt.Choose("curve", 4))
	wx := size + verifrt.Choose("x-width", 3) - 1
	wy := size + verifrt.Choose("y-width", 3) - 1
	x, y := verifrt.AnyBytes("x", wx), verifrt.AnyBytes("y", wy)
	jwk := &jws.JWK{Kty: "EC", Crv: name, X: base64.RawURLEncoding.EncodeToString(x), Y: base64.RawURLEncoding.EncodeToString(y)}
	_, err := parseJWK(jwk)
	verifrt.Reach("checked")
	if wx != size || wy != size {
		verifrt.Assert(err != nil, "coordinates of the wrong width are rejected")
		return
	}
	if !curve.IsOnCurve(new(big.Int).SetBytes(x), new(big.Int).SetBytes(y)) {
		verifrt.Assert(err != nil, "a point that is not on the named curve is rejected")
	}
}

// Harness_C16_RejectPaddedRealKey: the JWK of a real key whose x or y carries one extra leading zero byte (33 / 49 /
// 67 bytes: the same number, wrong width) or lacks its leading zero byte (when the coordinate has one), also with the other coordinate a byte too long, is rejected.
func Harness_C16_RejectPaddedRealKey() {
	verifrt.KeyLeadingZeros(1)
	curve, name, size := c16Curve(verifrt.Choose("curve", 4))
	priv := c16Key(curve, size)
	x, y := priv.X.FillBytes(make([]byte, size)), priv.Y.FillBytes(make([]byte, size))
	which := verifrt.Choose("coordinate", 2)
	mod := x
	if which == 1 {
		mod = y
	}
	width := verifrt.Choose("width", 3)
	switch width {
	case 0:
		mod = append([]byte{0}, mod...)
	case 1, 2:
		verifrt.Assume(mod[0] == 0) // only a coordinate with a leading zero byte has a shorter spelling of the same number
		mod = mod[1:]
	}
	if which == 0 {
		x = mod
	} else {
		y = mod
	}
	if width == 2 { // compensating widths: one coordinate a byte short, the other a byte long (the total is unchanged)
		if which == 0 {
			y = append([]byte{0}, y...)
		} else {
			x = append([]byte{0}, x...)
		}
	}
	jwk := &jws.JWK{Kty: "EC", Crv: name, X: base64.RawURLEncoding.EncodeToString(x), Y: base64.RawURLEncoding.EncodeToString(y)}
	_, err := parseJWK(jwk)
	verifrt.Reach("checked")
	verifrt.Assert(err != nil, "a coordinate of the wrong width is rejected even when it denotes a point on the curve")
}

// Harness_C16_RejectEd25519Width: an Ed25519 JWK whose x is not exactly 32 bytes (0, 31, 33, 64 arbitrary bytes) is
// rejected by the JWK reader and by GetED25519PublicKey.
func Harness_C16_RejectEd25519Width() {
	n := []int{0, 31, 33, 64}[verifrt.Choose("width", 4)]
	x := verifrt.AnyBytes("x", n)
	jwk := &jws.JWK{Kty: "OKP", Crv: "Ed25519", X: base64.RawURLEncoding.EncodeToString(x)}
	_, err := parseJWK(jwk)
	_, err2 := jwsutil.GetED25519PublicKey(jwk)
	verifrt.Reach("answered")
	verifrt.Assert(err != nil && err2 != nil, "an Ed25519 JWK whose x is not 32 bytes is rejected")
}
