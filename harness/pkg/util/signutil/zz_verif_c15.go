package signutil

import (
	"crypto/ecdsa"
	"crypto/ed25519"
	"crypto/elliptic"
	"crypto/rand"
	"encoding/base64"
	"strings"

	"github.com/btcsuite/btcd/btcec/v2"

	verifrt "github.com/trustbloc/sidetree-go/pkg/internal/verifrt"
	"github.com/trustbloc/sidetree-go/pkg/jws"
	"github.com/trustbloc/sidetree-go/pkg/jwsutil"
	"github.com/trustbloc/sidetree-go/pkg/util/ecsigner"
	"github.com/trustbloc/sidetree-go/pkg/util/edsigner"
	"github.com/trustbloc/sidetree-go/pkg/util/pubkey"
)

type c15Key struct {
	signer Signer
	jwk    *jws.JWK
	size   int // r/s width; 0 for Ed25519
}

func curveOf(i int) (elliptic.Curve, string, int) {
	switch i {
	case 0:
		return elliptic.P256(), "ES256", 32
	case 1:
		return elliptic.P384(), "ES384", 48
	case 2:
		return elliptic.P521(), "ES512", 66
	}
	return btcec.S256(), "ES256K", 32
}

// newKey: key type 0..3 = P-256, P-384, P-521, secp256k1; 4 = Ed25519. The native replay searches for a key
// with the same leading-zero pattern as the solver's model.
func newKey(tag string, kind int) *c15Key {
	if kind == 4 {
		pub, priv, err := ed25519.GenerateKey(rand.Reader)
		verifrt.Assume(err == nil)
		jwk, err := pubkey.GetPublicKeyJWK(pub)
		verifrt.Assume(err == nil)
		return &c15Key{signer: edsigner.New(priv, "EdDSA", ""), jwk: jwk}
	}
	curve, alg, size := curveOf(kind)
	var priv *ecdsa.PrivateKey
	for {
		var err error
		priv, err = ecdsa.GenerateKey(curve, rand.Reader)
		verifrt.Assume(err == nil)
		x, y := priv.X.FillBytes(make([]byte, size)), priv.Y.FillBytes(make([]byte, size))
		if verifrt.LeadingZerosOK(tag+"-x", x) && verifrt.LeadingZerosOK(tag+"-y", y) {
			break
		}
	}
	jwk, err := pubkey.GetPublicKeyJWK(&priv.PublicKey)
	if err != nil {
		verifrt.Fail("public key of a generated key cannot be converted to a JWK")
		verifrt.Assume(false)
	}
	return &c15Key{signer: ecsigner.New(priv, alg, ""), jwk: jwk, size: size}
}

func segments(compact string) []string { return strings.Split(compact, ".") }

// sign produces a compact JWS; natively it re-signs until r and s have the model's leading-zero pattern.
func sign(k *c15Key, payload []byte) string {
	for {
		compact, err := SignPayload(payload, k.signer)
		if err != nil {
			verifrt.Fail("signing with a valid key fails")
			verifrt.Assume(false)
		}
		if k.size == 0 {
			return compact
		}
		sig, err := base64.RawURLEncoding.DecodeString(segments(compact)[2])
		if err == nil && !verifrt.NativeRetryUntil("sig-len", len(sig)) {
			continue // natively: sign again until the signature has the length seen on the replayed path
		}
		if err != nil || len(sig) != 2*k.size {
			verifrt.Fail("ECDSA signature is not 2 x curve size bytes")
			return compact
		}
		if verifrt.LeadingZerosOK("sig-r", sig[:k.size]) && verifrt.LeadingZerosOK("sig-s", sig[k.size:]) {
			return compact
		}
	}
}

func c15RoundTrip(kind, maxLZ int) {
	verifrt.KeyLeadingZeros(maxLZ)
	k := newKey("k", kind)
	payload := []byte("payload-" + verifrt.AnyAtom("payload"))
	compact := sign(k, payload)
	got, err := jwsutil.VerifyJWS(compact, k.jwk)
	verifrt.Reach("signed")
	verifrt.Assert(err == nil && got != nil && string(got.Payload) == string(payload), "a JWS produced by the library's signer verifies under the matching public JWK and returns the payload unchanged")

	switch verifrt.Choose("tamper", 9) {
	case 8: // the caller supplies the payload bytes to be verified (detached payload)
		s := segments(compact)
		other := []byte("payload-" + verifrt.AnyAtom("payload2"))
		verifrt.Assume(string(other) != string(payload))
		switch verifrt.Choose("detached", 4) {
		case 0: // other bytes than those signed, the compact form still carrying the signed payload
			_, err := jwsutil.VerifyJWS(compact, k.jwk, jwsutil.WithJWSDetachedPayload(other))
			verifrt.Assert(err != nil, "verification of the caller's payload bytes fails when the signature was made over other bytes")
		case 1: // other bytes, payload segment empty
			_, err := jwsutil.VerifyJWS(s[0]+".."+s[2], k.jwk, jwsutil.WithJWSDetachedPayload(other))
			verifrt.Assert(err != nil, "verification of the caller's payload bytes fails when the signature was made over other bytes (empty payload segment)")
		case 2: // the signed bytes, payload segment empty
			got, err := jwsutil.VerifyJWS(s[0]+".."+s[2], k.jwk, jwsutil.WithJWSDetachedPayload(payload))
			verifrt.Assert(err == nil && got != nil && string(got.Payload) == string(payload), "a JWS with detached payload verifies against the signed bytes and returns them")
		case 3: // the signed bytes, the payload segment replaced by other content: what is verified and returned is the caller's payload
			got, err := jwsutil.VerifyJWS(s[0]+"."+base64.RawURLEncoding.EncodeToString(other)+"."+s[2], k.jwk, jwsutil.WithJWSDetachedPayload(payload))
			verifrt.Assert(err != nil || string(got.Payload) == string(payload), "a verified JWS never returns payload bytes the signature was not made over")
		}
	case 7: // the matching key with a coordinate of another width (an extra byte behind x, or x cut by one byte): another key
		cp := *k.jwk
		xb, derr := base64.RawURLEncoding.DecodeString(cp.X)
		verifrt.Assume(derr == nil && len(xb) > 1)
		if verifrt.Choose("x-width", 2) == 0 {
			cp.X = base64.RawURLEncoding.EncodeToString(append(append([]byte{}, xb...), verifrt.AnyU8("extra-byte")))
		} else {
			cp.X = base64.RawURLEncoding.EncodeToString(xb[:len(xb)-1])
		}
		_, err := jwsutil.VerifyJWS(compact, &cp)
		verifrt.Assert(err != nil, "verification under a key whose x has another width fails")
	case 0: // another key of the same type
		o := newKey("o", kind)
		verifrt.Assume(o.jwk.X != k.jwk.X || o.jwk.Y != k.jwk.Y)
		_, err := jwsutil.VerifyJWS(compact, o.jwk)
		verifrt.Assert(err != nil, "verification under any other key fails")
	case 1: // payload bytes changed
		s := segments(compact)
		other := []byte("payload-" + verifrt.AnyAtom("payload2"))
		verifrt.Assume(string(other) != string(payload))
		_, err := jwsutil.VerifyJWS(s[0]+"."+base64.RawURLEncoding.EncodeToString(other)+"."+s[2], k.jwk)
		verifrt.Assert(err != nil, "verification fails after a change to the payload bytes")
	case 2: // decoded header content changed
		s := segments(compact)
		_, err := jwsutil.VerifyJWS(base64.RawURLEncoding.EncodeToString([]byte(`{"alg":"ES256","kid":"added"}`))+"."+s[1]+"."+s[2], k.jwk)
		verifrt.Assert(err != nil, "verification fails after a change to the header content")
	case 3: // signature bytes changed (same length)
		s := segments(compact)
		sig, _ := base64.RawURLEncoding.DecodeString(s[2])
		i := verifrt.Choose("sig-pos", 3)
		pos := []int{0, len(sig) / 2, len(sig) - 1}[i]
		d := verifrt.AnyU8("sig-xor")
		verifrt.Assume(d != 0)
		mod := append([]byte{}, sig...)
		mod[pos] ^= d
		_, err := jwsutil.VerifyJWS(s[0]+"."+s[1]+"."+base64.RawURLEncoding.EncodeToString(mod), k.jwk)
		verifrt.Assert(err != nil, "verification fails after a change to the signature bytes")
	case 4: // wrong-length signatures
		s := segments(compact)
		sig, _ := base64.RawURLEncoding.DecodeString(s[2])
		var mod []byte
		switch verifrt.Choose("len-change", 3) {
		case 0:
			mod = sig[:len(sig)-1]
		case 1:
			mod = append(append([]byte{}, sig...), 0)
		case 2:
			mod = append([]byte{0}, sig...)
		}
		_, err := jwsutil.VerifyJWS(s[0]+"."+s[1]+"."+base64.RawURLEncoding.EncodeToString(mod), k.jwk)
		verifrt.Assert(err != nil, "signatures of the wrong length are rejected")
	case 5: // malformed compact forms
		s := segments(compact)
		bad := []string{s[0] + "." + s[1], s[0] + "." + s[1] + "." + s[2] + "." + s[2], s[0] + ".." + s[2], s[0] + "." + s[1] + ".", "{" + compact}[verifrt.Choose("malformed", 5)]
		_, err := jwsutil.VerifyJWS(bad, k.jwk)
		verifrt.Assert(err != nil, "malformed compact forms are rejected")
	case 6: // unsupported key type / curve
		cp := *k.jwk
		if verifrt.Choose("unsupported", 2) == 0 {
			cp.Kty = "RSA"
		} else {
			cp.Crv = "P-999"
		}
		_, err := jwsutil.VerifyJWS(compact, &cp)
		verifrt.Assert(err != nil, "unsupported key types and curves are rejected")
	}
}

// Harness_C15_RoundTrip: all five key types; keys, r and s with up to two leading zero bytes.
func Harness_C15_RoundTrip() { c15RoundTrip(verifrt.Choose("key-type", 5), 2) }

// HarnessT_C15_RoundTripWide: up to 3 leading zero bytes in every coordinate and signature half.
func HarnessT_C15_RoundTripWide() { c15RoundTrip(verifrt.Choose("key-type", 5), 3) }
