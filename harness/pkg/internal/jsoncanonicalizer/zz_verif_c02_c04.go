package jsoncanonicalizer

import (
	verifrt "github.com/trustbloc/sidetree-go/pkg/internal/verifrt"
)

// The hash bindings of C02 (delta <-> signed delta hash) and C04 (key <-> commitment / reveal value) rest on two facts
// about the canonical form which the harnesses of those properties otherwise take from the summary canon(tree):
// different values have different canonical bytes, and the members of a key come out in the one RFC 8785 order.
// These two harnesses decide them on the real Transform for the shapes those properties hash.

// Harness_C02_CanonicalInjective: two string values given by \uXXXX escapes (any two BMP scalar values, either hex
// case) have the same canonical bytes only if they are the same value: a delta cannot be swapped for another one
// with the same hash.
func Harness_C02_CanonicalInjective() {
	a, b := anyScalar("a"), anyScalar("b")
	verifrt.Assume(a < 0x10000 && b < 0x10000)
	ta := cat([]byte(`{"patches":[{"v":"`), hex4(uint16(a), verifrt.AnyBool("a-upper")), []byte(`"}]}`))
	tb := cat([]byte(`{"patches":[{"v":"`), hex4(uint16(b), verifrt.AnyBool("b-upper")), []byte(`"}]}`))
	oa, ea := Transform(ta)
	ob, eb := Transform(tb)
	verifrt.Reach("transformed")
	verifrt.Assert(ea == nil && eb == nil, "escaped scalar values are accepted")
	if ea == nil && eb == nil && a != b {
		verifrt.Assert(!same(oa, ob), "different string values have different canonical bytes")
	}
}

// Harness_C04_JWKMemberOrder: the members of a JWK (EC / OKP / RSA, with and without nonce; one symbolic character per
// value) in any of three input orders come out as crv, e, kty, n, nonce, x, y - in particular n before nonce.
func Harness_C04_JWKMemberOrder() {
	v := func(tag string) []byte {
		c := verifrt.AnyU8(tag)
		verifrt.Assume(c >= 0x30 && c < 0x7b && c != '\\')
		return []byte{'"', c, '"'}
	}
	type member struct {
		name string
		val  []byte
	}
	var ms []member
	switch verifrt.Choose("key-shape", 3) {
	case 0:
		ms = []member{{"crv", v("crv")}, {"kty", v("kty")}, {"x", v("x")}, {"y", v("y")}}
	case 1:
		ms = []member{{"crv", v("crv")}, {"kty", v("kty")}, {"x", v("x")}}
	default:
		ms = []member{{"e", v("e")}, {"kty", v("kty")}, {"n", v("n")}}
	}
	if verifrt.Choose("nonce", 2) == 1 {
		// canonical position: behind n / kty, in front of x
		at := len(ms)
		for i, m := range ms {
			if m.name == "x" {
				at = i
			}
		}
		ms = append(ms[:at:at], append([]member{{"nonce", v("nonce")}}, ms[at:]...)...)
	}
	render := func(order []int) []byte {
		out := []byte{'{'}
		for k, i := range order {
			if k > 0 {
				out = append(out, ',')
			}
			out = append(append(append(out, '"'), ms[i].name...), '"', ':')
			out = append(out, ms[i].val...)
		}
		return append(out, '}')
	}
	n := len(ms)
	canonical := make([]int, n)
	reversed := make([]int, n)
	rotated := make([]int, n)
	for i := 0; i < n; i++ {
		canonical[i], reversed[i], rotated[i] = i, n-1-i, (i+2)%n
	}
	input := [][]int{canonical, reversed, rotated}[verifrt.Choose("input-order", 3)]
	out, err := Transform(render(input))
	verifrt.Reach("transformed")
	verifrt.Assert(err == nil && same(out, render(canonical)), "the members of a key are written in RFC 8785 order whatever the input order")
}

// Harness_C03_CanonicalInjective: the same fact for suffix data (C03: changing any part of the suffix data changes the
// DID): two type strings given by \uXXXX escapes have equal canonical bytes only if they are the same value, and the
// escaped and the raw spelling of one value have the same bytes (the same request denotes the same DID).
func Harness_C03_CanonicalInjective() {
	a, b := anyScalar("a"), anyScalar("b")
	verifrt.Assume(a < 0x10000 && b < 0x10000 && a >= 0x20 && a != '"' && a != '\\')
	ta := cat([]byte(`{"type":"`), hex4(uint16(a), verifrt.AnyBool("a-upper")), []byte(`"}`))
	tb := cat([]byte(`{"type":"`), hex4(uint16(b), verifrt.AnyBool("b-upper")), []byte(`"}`))
	raw := cat([]byte(`{"type":"`), []byte(string(a)), []byte(`"}`))
	oa, ea := Transform(ta)
	ob, eb := Transform(tb)
	or, er := Transform(raw)
	verifrt.Reach("transformed")
	verifrt.Assert(ea == nil && eb == nil && er == nil, "escaped and raw scalar values are accepted")
	if ea == nil && eb == nil && er == nil {
		verifrt.Assert(same(oa, or), "the escaped and the raw spelling of a value have the same canonical bytes")
		if a != b {
			verifrt.Assert(!same(oa, ob), "different string values have different canonical bytes")
		}
	}
}
