package jsoncanonicalizer

import (
	verifrt "github.com/trustbloc/sidetree-go/pkg/internal/verifrt"
)

// The hash bindings of C02 (delta <-> signed delta hash) and C04 (key <-> commitment / reveal value) rest on two facts
// about the canonical form which the harnesses of those properties otherwise take from the summary canon(tree):
// different values have different canonical bytes, and the members of a key come out in the one RFC 8785 order.
// These two harnesses decide them on the real Transform for the shapes those properties hash.

// Harness_C02_CanonicalInjective: two string values given by \uXXXX escapes (any two BMP scalar values, either hex
// case) have the same canonical bytes only if they are the same value: a delta cannot be swapped for another one
// with the same hash.
func Harness_C02_CanonicalInjective() {
	a, b := anyScalar("a"), anyScalar("b")
	verifrt.Assume(a < 0x10000 && b < 0x10000)
	ta := cat([]byte(`{"patches":[{"v":"`), hex4(uint16(a), verifrt.AnyBool("a-upper")), []byte(`"}]}`))
	tb := cat([]byte(`{"patches":[{"v":"`), hex4(uint16(b), verifrt.AnyBool("b-upper")), []byte(`"}]}`))
	oa, ea := Transform(ta)
	ob, eb := Transform(tb)
	verifrt.Reach("transformed")
	verifrt.Assert(ea == nil && eb == nil, "escaped scalar values are accepted")
	if ea == nil && eb == nil && a != b {
		verifrt.Assert(!same(oa, ob), "different string values have different canonical bytes")
	}
}

// Harness_C04_JWKMemberOrder: the members of a JWK (EC / OKP / RSA, with and without nonce; one symbolic character per
// value) in any of three input orders come out as crv, e, kty, n, nonce, x, y - in particular n before nonce.
func Harness_C04_JWKMemberOrder() {
	v := func(tag string) []byte {
		c := verifrt.AnyU8(tag)
		verifrt.Assume(c >= 0x30 && c < 0x7b && c != '\\')
		return []byte{'"', c, '"'}
	}
	type member struct {
		name string
		val  []byte
	}
	var ms []member
	switch verifrt.Choose("key-shape", 3) {
	case 0:
		ms = []member{{"crv", v("crv")}, {"kty", v("kty")}, {"x", v("x")}, {"y", v("y")}}
	case 1:
		ms = []member{{"crv", v("crv")}, {"kty", v("kty")}, {"x", v("x")}}
	default:
		ms = []member{{"e", v("e")}, {"kty", v("kty")}, {"n", v("n")}}
	}
	if verifrt.Choose("nonce", 2) == 1 {
		// canonical position: behind n / kty, in front of x
		at := len(ms)
		for i, m := range ms {
			if m.name == "x" {
				at = i
			}
		}
		ms = append(ms[:at:at], append([]member{{"nonce", v("nonce")}}, ms[at:]...)...)
	}
	render := func(order []int) []byte {
		out := []byte{'{'}
		for k, i := range order {
			if k > 0 {
				out = append(out, ',')
			}
			out = append(append(append(out, '"'), ms[i].name...), '"', ':')
			out = append(out, ms[i].val...)
		}
		return append(out, '}')
	}
	n := len(ms)
	canonical := make([]int, n)
	reversed := make([]int, n)
	rotated := make([]int, n)
	for i := 0; i < n; i++ {
		canonical[i], reversed[i], rotated[i] = i, n-1-i, (i+2)%n
	}
	input := [][]int{canonical, reversed, rotated}[verifrt.Choose("input-order", 3)]
	out, err := Transform(render(input))
	verifrt.Reach("transformed")
	verifrt.Assert(err == nil && same(out, render(canonical)), "the members of a key are written in RFC 8785 order whatever the input order")
}

// Harness_C03_CanonicalInjective: the same fact for suffix data (C03: changing any part of the suffix data changes the
// DID): two type strings given by \uXXXX escapes have equal canonical bytes only if they are the same value, and the
// escaped and the raw spelling of one value have the same bytes (the same request denotes the same DID).
func Harness_C03_CanonicalInjective() {
	a, b := anyScalar("a"), anyScalar("b")
	verifrt.Assume(a < 0x10000 && b < 0x10000 && a >= 0x20 && a != '"' && a != '\\')
	ta := cat([]byte(`{"type":"`), hex4(uint16(a), verifrt.AnyBool("a-upper")), []byte(`"}`))
	tb := cat([]byte(`{"type":"`), hex4(uint16(b), verifrt.AnyBool("b-upper")), []byte(`"}`))
	raw := cat([]byte(`{"type":"`), []byte(string(a)), []byte(`"}`))
	oa, ea := Transform(ta)
	ob, eb := Transform(tb)
	or, er := Transform(raw)
	verifrt.Reach("transformed")
	verifrt.Assert(ea == nil && eb == nil && er == nil, "escaped and raw scalar values are accepted")
	if ea == nil && eb == nil && er == nil {
		verifrt.Assert(same(oa, or), "the escaped and the raw spelling of a value have the same canonical bytes")
		if a != b {
			verifrt.Assert(!same(oa, ob), "different string values have different canonical bytes")
		}
	}
}

// Harness_C03_CanonicalMemberOrder: suffix data whose anchor origin (member "origin" here: the engine unwinds the escape loop 64 times per call) is an object with two members named by arbitrary
// scalar values (the whole Unicode range, incl. names beyond the BMP next to names in U+E000..U+FFFF, where code-point
// order and UTF-16 order differ): the bytes that are hashed into the suffix are the RFC 8785 ones, whatever order the
// request used.
func Harness_C03_CanonicalMemberOrder() {
	a, b := anyScalar("a"), anyScalar("b")
	verifrt.Assume(a >= 0x20 && a != '"' && a != '\\' && b >= 0x20 && b != '"' && b != '\\' && a != b)
	m1 := cat([]byte(`"`), []byte(string(a)), []byte(`":1`))
	m2 := cat([]byte(`"`), []byte(string(b)), []byte(`":2`))
	first, second := m1, m2
	if !utf16Less(a, b) {
		first, second = m2, m1
	}
	expected := cat([]byte(`{"origin":{`), first, []byte(`,`), second, []byte(`},"type":"t"}`))
	var input []byte
	if verifrt.Choose("request-order", 2) == 0 {
		input = cat([]byte(`{"origin":{`), m1, []byte(`,`), m2, []byte(`},"type":"t"}`))
	} else {
		input = cat([]byte(`{"type":"t", "origin":{`), m2, []byte(`, `), m1, []byte(`}}`))
	}
	out, err := Transform(input)
	verifrt.Reach("transformed")
	verifrt.Assert(err == nil && same(out, expected), "suffix data is hashed in its RFC 8785 form: members ordered by UTF-16 code units, whatever the request's order")
}

// Harness_C04_JWKNonASCII: a key whose nonce holds an arbitrary scalar value (raw UTF-8 or any escape spelling): the
// bytes hashed into commitment and reveal value carry that character in its RFC 8785 spelling (raw UTF-8 beyond the
// short escapes), so keys differing in one character never share a commitment.
func Harness_C04_JWKNonASCII() {
	cp := anyScalar("c")
	input := cat([]byte(`{"nonce":"`), spell("c", cp), []byte(`","kty":"EC","x":"a","crv":"P-256","y":"b"}`))
	expected := cat([]byte(`{"crv":"P-256","kty":"EC","nonce":"`), canon(cp), []byte(`","x":"a","y":"b"}`))
	out, err := Transform(input)
	verifrt.Reach("transformed")
	verifrt.Assert(err == nil && same(out, expected), "key members are hashed in their RFC 8785 spelling")
}
