package jsoncanonicalizer

import (
	verifrt "github.com/trustbloc/sidetree-go/pkg/internal/verifrt"
)

// anyScalar: a symbolic Unicode scalar value (not a surrogate, <= 0x10FFFF).
func anyScalar(tag string) rune {
	cp := rune(verifrt.AnyU32(tag))
	verifrt.Assume(cp >= 0 && cp <= 0x10FFFF && !(cp >= 0xD800 && cp <= 0xDFFF))
	return cp
}

func hex4(u uint16, upper bool) []byte {
	return []byte{'\\', 'u', verifrt.HexDigit(byte(u>>12), upper), verifrt.HexDigit(byte(u>>8), upper),
		verifrt.HexDigit(byte(u>>4), upper), verifrt.HexDigit(byte(u), upper)}
}

// spell writes code point cp inside a JSON string literal in one of the surface spellings.
func spell(tag string, cp rune) []byte {
	if tag == "c1" {
		// second code point: a raw printable ASCII character (the full product of two arbitrary code points in all
		// spellings does not finish within the thorough budget)
		verifrt.Assume(cp >= 0x20 && cp < 0x7f && cp != '"' && cp != '\\')
		return []byte{byte(cp)}
	}
	switch verifrt.Choose(tag+"-spelling", 3) {
	case 0: // raw UTF-8; only legal for cp >= 0x20 other than quote and backslash
		verifrt.Assume(cp >= 0x20 && cp != '"' && cp != '\\')
		return []byte(string(cp))
	case 1: // \uXXXX (surrogate pair above the BMP), either hex case
		upper := verifrt.AnyBool(tag + "-upper")
		if cp >= 0x10000 {
			v := cp - 0x10000
			return append(hex4(uint16(0xD800+(v>>10)), upper), hex4(uint16(0xDC00+(v&0x3FF)), upper)...)
		}
		return hex4(uint16(cp), upper)
	}
	// short escape
	switch verifrt.Choose(tag+"-short", 8) {
	case 0:
		verifrt.Assume(cp == '"')
		return []byte(`\"`)
	case 1:
		verifrt.Assume(cp == '\\')
		return []byte(`\\`)
	case 2:
		verifrt.Assume(cp == '/')
		return []byte(`\/`)
	case 3:
		verifrt.Assume(cp == '\b')
		return []byte(`\b`)
	case 4:
		verifrt.Assume(cp == '\f')
		return []byte(`\f`)
	case 5:
		verifrt.Assume(cp == '\n')
		return []byte(`\n`)
	case 6:
		verifrt.Assume(cp == '\r')
		return []byte(`\r`)
	}
	verifrt.Assume(cp == '\t')
	return []byte(`\t`)
}

// canonical spelling of one code point per RFC 8785 section 3.2.2.2
func canon(cp rune) []byte {
	switch cp {
	case '"':
		return []byte(`\"`)
	case '\\':
		return []byte(`\\`)
	case '\b':
		return []byte(`\b`)
	case '\f':
		return []byte(`\f`)
	case '\n':
		return []byte(`\n`)
	case '\r':
		return []byte(`\r`)
	case '\t':
		return []byte(`\t`)
	}
	if cp < 0x20 {
		return []byte{'\\', 'u', '0', '0', verifrt.HexDigit(byte(cp>>4), false), verifrt.HexDigit(byte(cp), false)}
	}
	return []byte(string(cp))
}

func ws(tag string) []byte {
	c := verifrt.Choose(tag, 5)
	if c == 0 {
		return nil
	}
	return []byte{[]byte{0x20, 0x0a, 0x0d, 0x09}[c-1]}
}

func cat(parts ...[]byte) []byte {
	var out []byte
	for _, p := range parts {
		out = append(out, p...)
	}
	return out
}

func same(a, b []byte) bool { return string(a) == string(b) }

// Harness_C05_StringEscaping: every Unicode scalar value, in every surface spelling, inside an array
// and as an object value, comes out in the unique RFC 8785 spelling; output is a fixed point.
func Harness_C05_StringEscaping() { stringEscaping(1) }

// HarnessT_C05_StringEscaping2: two code points: the first in every spelling, the second raw UTF-8 or \uXXXX.
func HarnessT_C05_StringEscaping2() { stringEscaping(2) }

func stringEscaping(n int) {
	var in, want []byte
	for i := 0; i < n; i++ {
		tag := "c" + string(rune('0'+i))
		cp := anyScalar(tag)
		in = append(in, spell(tag, cp)...)
		want = append(want, canon(cp)...)
	}
	input := cat([]byte(`[`), ws("w0"), []byte(`"`), in, []byte(`"`), ws("w1"), []byte(`]`))
	expected := cat([]byte(`["`), want, []byte(`"]`))
	out, err := Transform(input)
	if err != nil {
		verifrt.Fail("well-formed JSON string rejected")
		return
	}
	verifrt.Reach("transformed")
	verifrt.Assert(same(out, expected), "strings are written with minimal RFC 8785 escaping, whatever the input spelling")
	again, err2 := Transform(out)
	verifrt.Assert(err2 == nil && same(again, out), "canonical output is a fixed point of canonicalization")
}

// utf16Less: a precedes b in UTF-16 code-unit order (single code points).
func utf16Less(a, b rune) bool {
	a0, a1 := uint32(a), uint32(0)
	if a >= 0x10000 {
		a0, a1 = 0xD800+uint32(a-0x10000)>>10, 0xDC00+uint32(a-0x10000)&0x3FF
	}
	b0, b1 := uint32(b), uint32(0)
	if b >= 0x10000 {
		b0, b1 = 0xD800+uint32(b-0x10000)>>10, 0xDC00+uint32(b-0x10000)&0x3FF
	}
	return verifrt.Or(a0 < b0, verifrt.And(a0 == b0, a1 < b1))
}

// Harness_C05_MemberOrder: members are ordered by UTF-16 code units of their names (names are symbolic
// code points over the whole scalar range, optionally followed by a fixed tail); duplicates are an error.
func Harness_C05_MemberOrder() {
	a, b := anyScalar("a"), anyScalar("b")
	verifrt.Assume(a >= 0x20 && a != '"' && a != '\\' && b >= 0x20 && b != '"' && b != '\\')
	tail := []byte{}
	if verifrt.Choose("tail", 2) == 1 {
		tail = []byte("x")
	}
	na, nb := cat([]byte(string(a)), tail), cat([]byte(string(b)), tail)
	m1 := cat([]byte(`"`), na, []byte(`":true`))
	m2 := cat([]byte(`"`), nb, []byte(`":null`))
	input := cat([]byte(`{`), ws("w0"), m1, ws("w1"), []byte(`,`), ws("w2"), m2, []byte(`}`))
	out, err := Transform(input)
	if a == b {
		verifrt.Reach("duplicate")
		verifrt.Assert(err != nil, "duplicate member names are rejected")
		return
	}
	if err != nil {
		verifrt.Fail("well-formed object rejected")
		return
	}
	var expected []byte
	if utf16Less(a, b) {
		verifrt.Reach("in-order")
		expected = cat([]byte(`{`), m1, []byte(`,`), m2, []byte(`}`))
	} else {
		verifrt.Reach("swapped")
		expected = cat([]byte(`{`), m2, []byte(`,`), m1, []byte(`}`))
	}
	verifrt.Assert(same(out, expected), "members are ordered by the UTF-16 code units of their names, without whitespace")
	// the other member order of the same value gives byte-identical output
	out2, err2 := Transform(cat([]byte(`{`), m2, []byte(`,`), m1, []byte(`}`)))
	verifrt.Assert(err2 == nil && same(out2, out), "member order of the input does not influence the output")
}

// Harness_C05_ThreeMembers: three members, names one symbolic BMP code unit each.
func Harness_C05_ThreeMembers() {
	var names [3]rune
	for i := range names {
		names[i] = anyScalar("n" + string(rune('0'+i)))
		verifrt.Assume(names[i] >= 0x20 && names[i] != '"' && names[i] != '\\')
	}
	verifrt.Assume(names[0] != names[1] && names[1] != names[2] && names[0] != names[2])
	var input []byte
	input = append(input, '{')
	for i, n := range names {
		if i > 0 {
			input = append(input, ',')
		}
		input = append(input, cat([]byte(`"`), []byte(string(n)), []byte(`":[]`))...)
	}
	input = append(input, '}')
	out, err := Transform(input)
	if err != nil {
		verifrt.Fail("well-formed object rejected")
		return
	}
	verifrt.Reach("transformed")
	// sort the names with the reference order
	idx := [3]int{0, 1, 2}
	for i := 0; i < 3; i++ {
		for j := i + 1; j < 3; j++ {
			if utf16Less(names[idx[j]], names[idx[i]]) {
				idx[i], idx[j] = idx[j], idx[i]
			}
		}
	}
	var expected []byte
	expected = append(expected, '{')
	for i, k := range idx {
		if i > 0 {
			expected = append(expected, ',')
		}
		expected = append(expected, cat([]byte(`"`), []byte(string(names[k])), []byte(`":[]`))...)
	}
	expected = append(expected, '}')
	verifrt.Assert(same(out, expected), "three members are ordered by UTF-16 code units")
}

// Harness_C05_Nesting: nested containers, literals and whitespace; spelling independence and fixed point.
func Harness_C05_Nesting() {
	lit := [][]byte{[]byte(`true`), []byte(`false`), []byte(`null`), []byte(`""`), []byte(`[]`), []byte(`{}`)}[verifrt.Choose("literal", 6)]
	inner := cat([]byte(`{`), ws("w0"), []byte(`"b"`), ws("w1"), []byte(`:`), lit, []byte(`,"a":[`), lit, []byte(`,`), ws("w2"), lit, []byte(`]}`))
	input := cat(ws("w3"), []byte(`[`), inner, []byte(`]`), ws("w4"))
	expected := cat([]byte(`[{"a":[`), lit, []byte(`,`), lit, []byte(`],"b":`), lit, []byte(`}]`))
	out, err := Transform(input)
	if err != nil {
		verifrt.Fail("well-formed nested JSON rejected")
		return
	}
	verifrt.Reach("transformed")
	verifrt.Assert(same(out, expected), "nested value: sorted members, no insignificant whitespace")
}

// Harness_C05_Malformed: lone surrogates, raw control characters, bad escapes and truncations are errors.
func Harness_C05_Malformed() {
	var body []byte
	switch verifrt.Choose("kind", 6) {
	case 5: // a bare token that is neither a literal nor a number
		body = [][]byte{[]byte("x"), []byte("True"), []byte("nul"), []byte("0z"), []byte("1e"), []byte("--1"), []byte("1e999"), []byte("NaN"), []byte("Infinity")}[verifrt.Choose("token", 9)]
	case 0: // raw control character
		c := verifrt.AnyU8("ctl")
		verifrt.Assume(c < 0x20)
		body = []byte{'"', c, '"'}
	case 1: // unknown escape
		c := verifrt.AnyU8("esc")
		verifrt.Assume(c != '"' && c != '\\' && c != '/' && c != 'b' && c != 'f' && c != 'n' && c != 'r' && c != 't' && c != 'u' && c < 0x80)
		body = []byte{'"', '\\', c, '"'}
	case 2: // \u with a non-hex digit
		d := verifrt.AnyU8("digit")
		verifrt.Assume(!(d >= '0' && d <= '9') && !(d >= 'a' && d <= 'f') && !(d >= 'A' && d <= 'F') && d != '"' && d < 0x80)
		body = []byte{'"', '\\', 'u', '0', '0', d, '1', '"'}
	case 3: // high surrogate not followed by an escape
		body = cat([]byte(`"`), hex4(0xD800+uint16(verifrt.AnyU8("hi")), false), []byte(`x"`))
	case 4: // unterminated string
		body = []byte(`"abc`)
	}
	_, err := Transform(cat([]byte(`[`), body, []byte(`]`)))
	verifrt.Reach("checked")
	verifrt.Assert(err != nil, "malformed string literals and bare tokens are rejected with an error")
}

// Harness_C05_NumberGlue: NaN / infinities are errors and both zeros print as "0" for every bit pattern.
func Harness_C05_NumberGlue() {
	x := verifrt.AnyF64Bits("x")
	s, err := NumberToJSON(x)
	verifrt.Reach("special")
	if x != x || x > 1.7976931348623157e308 || x < -1.7976931348623157e308 {
		verifrt.Assert(err != nil, "NaN and infinities are not JSON numbers")
		return
	}
	verifrt.Assert(err == nil && s == "0", "+0 and -0 are written as 0")
}

// es6Number: ECMAScript Number::toString for the decimal d1...dk x 10^(n-k) (k digits, n = exp+1), ECMA-262 6.1.6.1.20.
func es6Number(d []byte, exp int) []byte {
	k, n := len(d), exp+1
	var out []byte
	switch {
	case k <= n && n <= 21:
		out = append(out, d...)
		for i := 0; i < n-k; i++ {
			out = append(out, '0')
		}
	case 0 < n && n <= 21:
		out = append(out, d[:n]...)
		out = append(out, '.')
		out = append(out, d[n:]...)
	case -6 < n && n <= 0:
		out = append(out, '0', '.')
		for i := 0; i < -n; i++ {
			out = append(out, '0')
		}
		out = append(out, d...)
	default:
		out = append(out, d[0])
		if k > 1 {
			out = append(out, '.')
			out = append(out, d[1:]...)
		}
		out = append(out, 'e')
		e := n - 1
		if e < 0 {
			out = append(out, '-')
			e = -e
		} else {
			out = append(out, '+')
		}
		var digits []byte
		for e > 0 {
			digits = append([]byte{byte('0' + e%10)}, digits...)
			e /= 10
		}
		out = append(out, digits...)
	}
	return out
}

// c05Number: NumberToJSON on the double whose shortest round-trip decimal is d1.d2...dn x 10^exp, for arbitrary digits
// (d1, dn != 0) and either sign, must be the ECMAScript rendering of those digits: fixed notation for
// 1e-6 <= |x| < 1e21, exponent notation with an explicit sign and no leading zeros otherwise.
func c05Number(maxDigits int, exps []int) {
	n := 1 + verifrt.Choose("digits", maxDigits)
	d := verifrt.AnyBytes("d", n)
	for i := range d {
		verifrt.Assume(d[i] >= '0' && d[i] <= '9')
	}
	verifrt.Assume(d[0] != '0' && d[n-1] != '0')
	var exp int
	if exps == nil {
		exp = -300 + verifrt.Choose("exp", 608) // every exponent of the normal range
	} else {
		exp = exps[verifrt.Choose("exp", len(exps))]
	}
	x := verifrt.FloatFromDecimal(d, exp)
	neg := verifrt.AnyBool("negative")
	if neg {
		x = -x
	}
	got, err := NumberToJSON(x)
	verifrt.Reach("formatted")
	want := string(es6Number(d, exp))
	if neg {
		want = "-" + want
	}
	verifrt.Assert(err == nil && got == want, "a finite number is written in the ECMAScript shortest round-trip format")
}

// Harness_C05_NumberFormat: 1..15 significant digits; exponents around both notation switches (1e-6, 1e21), around the
// integer fix-up region (12..21 integer digits), at one/two/three-digit exponents and at the ends of the normal range.
func Harness_C05_NumberFormat() {
	c05Number(15, []int{-300, -100, -99, -10, -9, -8, -7, -6, -5, -1, 0, 1, 2, 9, 10, 11, 12, 14, 15, 16, 19, 20, 21, 22, 23, 99, 100, 307})
}

// HarnessT_C05_NumberFormatAllExponents: every decimal exponent of the normal range -300..307.
func HarnessT_C05_NumberFormatAllExponents() { c05Number(15, nil) }

func itoa(v int) []byte {
	if v == 0 {
		return []byte{'0'}
	}
	var out []byte
	for v > 0 {
		out = append([]byte{byte('0' + v%10)}, out...)
		v /= 10
	}
	return out
}

// c05NumberSpelling: the same number in several surface spellings (the canonical one: fixed point; exponent form with
// capital E, explicit plus and leading zeros in the exponent; integer mantissa with adjusted exponent; superfluous
// trailing zeros) inside an array is canonicalized to the ECMAScript rendering.
func c05NumberSpelling(maxDigits int, exps []int) {
	n := 1 + verifrt.Choose("digits", maxDigits)
	d := verifrt.AnyBytes("d", n)
	for i := range d {
		verifrt.Assume(d[i] >= '0' && d[i] <= '9')
	}
	verifrt.Assume(d[0] != '0' && d[n-1] != '0')
	exp := exps[verifrt.Choose("exp", len(exps))]
	canonical := es6Number(d, exp)
	sign := []byte{}
	if verifrt.AnyBool("negative") {
		sign = []byte{'-'}
	}
	abs := exp
	esign := byte('+')
	if exp < 0 {
		abs, esign = -exp, '-'
	}
	var spelled []byte
	switch verifrt.Choose("spelling", 4) {
	case 0:
		spelled = append(spelled, canonical...)
	case 1: // d.dddE+00x
		spelled = append(spelled, d[0])
		if n > 1 {
			spelled = append(append(spelled, '.'), d[1:]...)
		}
		spelled = append(append(append(spelled, 'E', esign), '0', '0'), itoa(abs)...)
	case 2: // ddddde(exp-n+1)
		spelled = append(append(spelled, d...), 'e')
		e2 := exp - n + 1
		if e2 < 0 {
			spelled = append(spelled, '-')
			e2 = -e2
		}
		spelled = append(spelled, itoa(e2)...)
	default: // d.ddd000e exp
		spelled = append(append(spelled, d[0], '.'), d[1:]...)
		spelled = append(append(append(spelled, '0', '0', '0', 'e', esign)), itoa(abs)...)
	}
	text := append(append(append([]byte{'['}, sign...), spelled...), ']')
	out, err := Transform(text)
	verifrt.Reach("canonicalized")
	want := string(append(append(append([]byte{'['}, sign...), canonical...), ']'))
	verifrt.Assert(err == nil && string(out) == want, "every spelling of a number is canonicalized to its ECMAScript rendering (the canonical spelling is a fixed point)")
}

// Harness_C05_NumberSpelling: 1..6 digits, exponents around the notation switches.
func Harness_C05_NumberSpelling() {
	c05NumberSpelling(6, []int{-100, -8, -7, -6, -1, 0, 1, 5, 11, 12, 20, 21, 22, 100})
}

// HarnessT_C05_NumberSpellingWide: 1..15 digits, more exponents.
func HarnessT_C05_NumberSpellingWide() {
	c05NumberSpelling(15, []int{-300, -100, -99, -10, -9, -8, -7, -6, -5, -1, 0, 1, 2, 9, 10, 11, 12, 14, 15, 16, 19, 20, 21, 22, 23, 99, 100, 307})
}

// Harness_C05_PrefixNames: a member name that is a proper prefix of another one (such as n / nonce) sorts first; names
// are 1..2 and 2..4 symbolic printable ASCII characters, in either input order, with or without a third member whose
// name differs in its first character.
func Harness_C05_PrefixNames() {
	short := verifrt.AnyBytes("short", 1+verifrt.Choose("short-len", 2))
	ext := verifrt.AnyBytes("ext", 1+verifrt.Choose("ext-len", 2))
	for _, c := range cat(short, ext) {
		verifrt.Assume(c >= 0x20 && c < 0x7f && c != '"' && c != '\\')
	}
	long := cat(short, ext)
	m1 := cat([]byte(`"`), short, []byte(`":1`))
	m2 := cat([]byte(`"`), long, []byte(`":2`))
	var input []byte
	if verifrt.Choose("input-order", 2) == 0 {
		input = cat([]byte(`{`), m1, []byte(`,`), m2, []byte(`}`))
	} else {
		input = cat([]byte(`{`), m2, []byte(`,`), m1, []byte(`}`))
	}
	out, err := Transform(input)
	verifrt.Reach("transformed")
	verifrt.Assert(err == nil && same(out, cat([]byte(`{`), m1, []byte(`,`), m2, []byte(`}`))), "a name that is a proper prefix of another name sorts before it")
}
