package jsoncanonicalizer

import verifrt "github.com/trustbloc/sidetree-go/pkg/internal/verifrt"

// Harness_C19_TransformArbitraryBytes: every buffer of 0..3 bytes (every byte value) is answered with output or an
// error: no panic, no index out of range, termination within the unwinding bound.
func Harness_C19_TransformArbitraryBytes() {
	n := verifrt.Choose("len", 4)
	buf := verifrt.AnyBytes("buf", n)
	_, _ = Transform(buf)
	verifrt.Reach("answered")
}

// HarnessT_C19_TransformArbitraryBytes5: buffers of 4..5 bytes.
func HarnessT_C19_TransformArbitraryBytes5() {
	buf := verifrt.AnyBytes("buf", 4+verifrt.Choose("len", 2))
	_, _ = Transform(buf)
	verifrt.Reach("answered")
}

// Harness_C19_TransformTruncated: every truncation of documents containing \u escapes (hex digits arbitrary bytes),
// a surrogate pair, a number and literals, held in a buffer whose capacity equals its length (as decoders and
// copies produce), is answered with output or an error.
func Harness_C19_TransformTruncated() {
	d := verifrt.AnyBytes("digits", 4)
	var text []byte
	switch verifrt.Choose("template", 4) {
	case 0:
		text = append(append([]byte(`["\u`), d...), []byte(`"]`)...)
	case 1:
		text = append(append([]byte(`{"k\u`), d...), []byte(`":-1.5e3}`)...)
	case 2:
		text = append(append([]byte(`["\ud83d\u`), d...), []byte(`",true]`)...)
	default:
		text = append(append([]byte(`{"a":[null,"\\`), d[:2]...), []byte(`"]}`)...)
	}
	cut := verifrt.Choose("cut", 24)
	verifrt.Assume(cut <= len(text))
	buf := make([]byte, cut)
	copy(buf, text[:cut])
	_, _ = Transform(buf)
	verifrt.Reach("answered")
}
