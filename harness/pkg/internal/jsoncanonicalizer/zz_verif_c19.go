package jsoncanonicalizer

import verifrt "github.com/trustbloc/sidetree-go/pkg/internal/verifrt"

// Harness_C19_TransformArbitraryBytes: every buffer of 0..3 bytes (every byte value) is answered with output or an
// error: no panic, no index out of range, termination within the unwinding bound.
func Harness_C19_TransformArbitraryBytes() {
	n := verifrt.Choose("len", 4)
	buf := verifrt.AnyBytes("buf", n)
	_, _ = Transform(buf)
	verifrt.Reach("answered")
}

// HarnessT_C19_TransformArbitraryBytes5: buffers of 4..5 bytes.
func HarnessT_C19_TransformArbitraryBytes5() {
	buf := verifrt.AnyBytes("buf", 4+verifrt.Choose("len", 2))
	_, _ = Transform(buf)
	verifrt.Reach("answered")
}
