// Package verifgen builds Sidetree requests constructively for the verification harnesses
// (valid operation + symbolic fields + labelled mutations). It is ordinary Go: under symgo the
// repo helpers it calls are executed symbolically, natively they run for real.
package verifgen

import (
	"crypto/ecdsa"
	"crypto/ed25519"
	"crypto/elliptic"
	"crypto/rand"
	"encoding/json"

	"github.com/trustbloc/sidetree-go/pkg/api/operation"
	"github.com/trustbloc/sidetree-go/pkg/api/protocol"
	"github.com/trustbloc/sidetree-go/pkg/commitment"
	"github.com/trustbloc/sidetree-go/pkg/encoder"
	"github.com/trustbloc/sidetree-go/pkg/hashing"
	verifrt "github.com/trustbloc/sidetree-go/pkg/internal/verifrt"
	"github.com/trustbloc/sidetree-go/pkg/jws"
	"github.com/trustbloc/sidetree-go/pkg/patch"
	"github.com/btcsuite/btcd/btcec/v2"
	"github.com/trustbloc/sidetree-go/pkg/util/ecsigner"
	"github.com/trustbloc/sidetree-go/pkg/util/edsigner"
	"github.com/trustbloc/sidetree-go/pkg/util/pubkey"
	"github.com/trustbloc/sidetree-go/pkg/util/signutil"
	"github.com/trustbloc/sidetree-go/pkg/versions/1_0/model"
)

const (
	SHA256 = 0x12
	SHA512 = 0x13
)

// Key: an EC public JWK with opaque coordinates (all equality patterns between keys are covered).
func Key(tag string) *jws.JWK {
	return &jws.JWK{Kty: "EC", Crv: "P-256", X: verifrt.AnyAtom(tag + "-x"), Y: verifrt.AnyAtom(tag + "-y")}
}

// Protocol: v1 defaults with every numeric limit symbolic (< 2^62) when symbolicLimits is set.
func Protocol(tag string, symbolicLimits bool) protocol.Protocol {
	p := protocol.Protocol{
		GenesisTime:            0,
		MultihashAlgorithms:    []uint{SHA256},
		MaxOperationCount:      2,
		MaxOperationSize:       2500,
		MaxOperationHashLength: 100,
		MaxDeltaSize:           1700,
		MaxCasURILength:        100,
		CompressionAlgorithm:   "GZIP",
		MaxChunkFileSize:       20000000,
		Patches:                []string{"replace", "add-public-keys", "remove-public-keys", "add-services", "remove-services", "ietf-json-patch", "add-also-known-as", "remove-also-known-as"},
		SignatureAlgorithms:    []string{"EdDSA", "ES256", "ES256K"},
		KeyAlgorithms:          []string{"Ed25519", "P-256", "secp256k1"},
		MaxOperationTimeDelta:  2 * 60 * 60,
		NonceSize:              16,
	}
	if symbolicLimits {
		p.MaxOperationSize = verifrt.AnyUint(tag + "MaxOperationSize")
		p.MaxOperationHashLength = verifrt.AnyUint(tag + "MaxOperationHashLength")
		p.MaxDeltaSize = verifrt.AnyUint(tag + "MaxDeltaSize")
		p.NonceSize = verifrt.AnyU64(tag + "NonceSize")
		p.MaxOperationTimeDelta = verifrt.AnyU64(tag + "MaxOperationTimeDelta")
		verifrt.Assume(p.MaxOperationSize < 1<<62 && p.MaxOperationHashLength < 1<<62 && p.MaxDeltaSize < 1<<62 && p.NonceSize < 1<<62 && p.MaxOperationTimeDelta < 1<<62)
	}
	return p
}

func must(err error, what string) {
	if err != nil {
		verifrt.Fail("generator: " + what + " failed")
		verifrt.Assume(false)
	}
}

func Commitment(k *jws.JWK, code uint) string {
	c, err := commitment.GetCommitment(k, code)
	must(err, "GetCommitment")
	return c
}

func Reveal(k *jws.JWK, code uint) string {
	r, err := commitment.GetRevealValue(k, code)
	must(err, "GetRevealValue")
	return r
}

func ModelHash(v interface{}, code uint) string {
	h, err := hashing.CalculateModelMultihash(v, code)
	must(err, "CalculateModelMultihash")
	return h
}

// KeyPatch: add-public-keys with one valid key whose id is opaque.
func KeyPatch(tag string) patch.Patch {
	k := map[string]interface{}{
		"id": verifrt.AnyAtom(tag + "-kid"), "type": "JsonWebKey2020",
		"publicKeyJwk": map[string]interface{}{"kty": "EC", "crv": "P-256", "x": verifrt.AnyAtom(tag + "-kx"), "y": verifrt.AnyAtom(tag + "-ky")},
	}
	return patch.Patch{patch.ActionKey: "add-public-keys", patch.PublicKeys: []interface{}{k}}
}

// ReplacePatch: replace with one key and one service.
func ReplacePatch(tag string) patch.Patch {
	k := map[string]interface{}{
		"id": verifrt.AnyAtom(tag + "-kid"), "type": "JsonWebKey2020", "purposes": []interface{}{"authentication"},
		"publicKeyJwk": map[string]interface{}{"kty": "EC", "crv": "P-256", "x": verifrt.AnyAtom(tag + "-kx"), "y": verifrt.AnyAtom(tag + "-ky")},
	}
	s := map[string]interface{}{"id": verifrt.AnyAtom(tag + "-sid"), "type": "svc", "serviceEndpoint": "https://example.com/" + verifrt.AnyAtom(tag+"-ep")}
	return patch.Patch{patch.ActionKey: "replace", patch.DocumentKey: map[string]interface{}{"publicKeys": []interface{}{k}, "services": []interface{}{s}}}
}

func Delta(updateCommitment string, patches ...patch.Patch) *model.DeltaModel {
	return &model.DeltaModel{UpdateCommitment: updateCommitment, Patches: patches}
}

func JSON(v interface{}) []byte {
	b, err := json.Marshal(v)
	must(err, "json.Marshal")
	return b
}

// CompactJWS: b64url(JSON(headers)) "." b64url(JSON(payload)) "." b64url(signature)
func CompactJWS(headers map[string]interface{}, payload interface{}, signature []byte) string {
	return encoder.EncodeToString(JSON(headers)) + "." + encoder.EncodeToString(JSON(payload)) + "." + encoder.EncodeToString(signature)
}

// Create builds a create request; code is the multihash code used throughout.
type Create struct {
	UpdateKey, RecoveryKey *jws.JWK
	Delta                  *model.DeltaModel
	Suffix                 *model.SuffixDataModel
	Request                *model.CreateRequest
}

func NewCreate(tag string, code uint, patches ...patch.Patch) *Create {
	c := &Create{UpdateKey: Key(tag + "-upd"), RecoveryKey: Key(tag + "-rec")}
	c.Delta = Delta(Commitment(c.UpdateKey, code), patches...)
	c.Suffix = &model.SuffixDataModel{DeltaHash: ModelHash(c.Delta, code), RecoveryCommitment: Commitment(c.RecoveryKey, code)}
	verifrt.Assume(c.Delta.UpdateCommitment != c.Suffix.RecoveryCommitment) // distinct update and recovery keys
	c.Request = &model.CreateRequest{Operation: operation.TypeCreate, SuffixData: c.Suffix, Delta: c.Delta}
	return c
}

// JSONValue decodes JSON text into the generic representation.
func JSONValue(b []byte) interface{} {
	var v interface{}
	must(json.Unmarshal(b, &v), "json.Unmarshal")
	return v
}

// ---------------------------------------------------------------------------------------------
// Signed operations (real keys and the repo's real signers)

// Signer: a P-256 key pair with its public JWK and JWS signer.
type Signer struct {
	Priv *ecdsa.PrivateKey
	JWK  *jws.JWK
	S    *ecsigner.Signer
	S2   signutil.Signer // set for keys made by NewSignerKind
}

func NewSigner(tag string) *Signer {
	priv, err := ecdsa.GenerateKey(elliptic.P256(), rand.Reader)
	must(err, "ecdsa.GenerateKey")
	jwk, err := pubkey.GetPublicKeyJWK(&priv.PublicKey)
	must(err, "GetPublicKeyJWK")
	return &Signer{Priv: priv, JWK: jwk, S: ecsigner.New(priv, "ES256", "")}
}

func (s *Signer) signer() signutil.Signer {
	if s.S2 != nil {
		return s.S2
	}
	return s.S
}

// extraHeaderSigner signs with further members in the protected header (they are part of the signing input, so the
// signature is valid for them).
type extraHeaderSigner struct {
	signutil.Signer
	extra map[string]interface{}
}

func (e extraHeaderSigner) Headers() jws.Headers {
	h := jws.Headers{}
	for k, v := range e.Signer.Headers() {
		h[k] = v
	}
	for k, v := range e.extra {
		h[k] = v
	}
	return h
}

// WithHeaders is the key's signer with further protected header members.
func (s *Signer) WithHeaders(extra map[string]interface{}) signutil.Signer {
	return extraHeaderSigner{Signer: s.signer(), extra: extra}
}

// SignWithHeaders signs the model with further protected header members.
func (s *Signer) SignWithHeaders(model interface{}, extra map[string]interface{}) string {
	c, err := signutil.SignModel(model, extraHeaderSigner{Signer: s.signer(), extra: extra})
	must(err, "SignModel")
	return c
}

func (s *Signer) Sign(model interface{}) string {
	c, err := signutil.SignModel(model, s.signer())
	must(err, "SignModel")
	return c
}

// Update operation signed by the update key, with the given next update key.
type Update struct {
	Signed  *model.UpdateSignedDataModel
	Delta   *model.DeltaModel
	Request *model.UpdateRequest
}

func NewUpdate(suffix string, code uint, key *Signer, next *jws.JWK, from, until int64, patches ...patch.Patch) *Update {
	u := &Update{Delta: Delta(Commitment(next, code), patches...)}
	u.Signed = &model.UpdateSignedDataModel{UpdateKey: key.JWK, DeltaHash: ModelHash(u.Delta, code), AnchorFrom: from, AnchorUntil: until}
	u.Request = &model.UpdateRequest{Operation: operation.TypeUpdate, DidSuffix: suffix, RevealValue: Reveal(key.JWK, code),
		SignedData: key.Sign(u.Signed), Delta: u.Delta}
	return u
}

type Recover struct {
	Signed  *model.RecoverSignedDataModel
	Delta   *model.DeltaModel
	Request *model.RecoverRequest
}

func NewRecover(suffix string, code uint, key *Signer, nextRecovery, nextUpdate *jws.JWK, from, until int64, patches ...patch.Patch) *Recover {
	r := &Recover{Delta: Delta(Commitment(nextUpdate, code), patches...)}
	r.Signed = &model.RecoverSignedDataModel{RecoveryKey: key.JWK, RecoveryCommitment: Commitment(nextRecovery, code),
		DeltaHash: ModelHash(r.Delta, code), AnchorFrom: from, AnchorUntil: until}
	r.Request = &model.RecoverRequest{Operation: operation.TypeRecover, DidSuffix: suffix, RevealValue: Reveal(key.JWK, code),
		SignedData: key.Sign(r.Signed), Delta: r.Delta}
	return r
}

type Deactivate struct {
	Signed  *model.DeactivateSignedDataModel
	Request *model.DeactivateRequest
}

func NewDeactivate(suffix string, code uint, key *Signer, from, until int64) *Deactivate {
	d := &Deactivate{}
	d.Signed = &model.DeactivateSignedDataModel{DidSuffix: suffix, RecoveryKey: key.JWK, AnchorFrom: from, AnchorUntil: until}
	d.Request = &model.DeactivateRequest{Operation: operation.TypeDeactivate, DidSuffix: suffix, RevealValue: Reveal(key.JWK, code),
		SignedData: key.Sign(d.Signed)}
	return d
}

// NewSignerKind: key kinds accepted by the v1 protocol configuration: 0 = P-256/ES256, 1 = secp256k1/ES256K,
// 2 = Ed25519/EdDSA.
func NewSignerKind(tag string, kind int) *Signer {
	switch kind {
	case 1:
		priv, err := ecdsa.GenerateKey(btcec.S256(), rand.Reader)
		must(err, "ecdsa.GenerateKey")
		jwk, err := pubkey.GetPublicKeyJWK(&priv.PublicKey)
		must(err, "GetPublicKeyJWK")
		return &Signer{Priv: priv, JWK: jwk, S2: ecsigner.New(priv, "ES256K", "")}
	case 2:
		pub, priv, err := ed25519.GenerateKey(rand.Reader)
		must(err, "ed25519.GenerateKey")
		jwk, err := pubkey.GetPublicKeyJWK(pub)
		must(err, "GetPublicKeyJWK")
		return &Signer{JWK: jwk, S2: edsigner.New(priv, "EdDSA", "")}
	}
	return NewSigner(tag)
}
