package docutil

import (
	"github.com/trustbloc/sidetree-go/pkg/api/protocol"
	"github.com/trustbloc/sidetree-go/pkg/document"
	verifrt "github.com/trustbloc/sidetree-go/pkg/internal/verifrt"
)

// Harness_C18_TransformationInfoPublished: for a published document the transformation info carries the requested id
// as given (plain, domain-hinted, reference-hinted or long form), published = true, the canonical id
// namespace[:canonical reference]:suffix and the equivalent ids canonical id + one per equivalent reference, in order -
// whatever form the requested id has.
func Harness_C18_TransformationInfoPublished() {
	ns := "did:" + verifrt.AnyAtom("method")
	suffix := "Ei" + verifrt.AnyAtom("suffix")
	id := ns + ":" + suffix
	switch verifrt.Choose("id-form", 4) {
	case 1:
		id = ns + ":domain.com:" + suffix
	case 2:
		id = ns + ":hl:" + verifrt.AnyAtom("hint") + ":" + suffix
	case 3:
		id = ns + ":" + suffix + ":" + verifrt.AnyAtom("initial-state")
	}
	rm := &protocol.ResolutionModel{}
	canonical := ns + ":" + suffix
	if verifrt.Choose("canonical-reference", 2) == 1 {
		rm.CanonicalReference = "hl:" + verifrt.AnyAtom("cref")
		canonical = ns + ":" + rm.CanonicalReference + ":" + suffix
	}
	want := []interface{}{canonical}
	n := verifrt.Choose("equivalent-references", 3)
	for i := 0; i < n; i++ {
		ref := "hl:" + verifrt.AnyAtom("eref"+string(rune('0'+i)))
		rm.EquivalentReferences = append(rm.EquivalentReferences, ref)
		want = append(want, ns+":"+ref+":"+suffix)
	}
	ti := GetTransformationInfoForPublished(ns, id, suffix, rm)
	verifrt.Reach("published")
	verifrt.Assert(verifrt.JSONEqual(ti[document.IDProperty], id) && verifrt.JSONEqual(ti[document.PublishedProperty], true), "the info carries the requested id as given and published = true")
	verifrt.Assert(verifrt.JSONEqual(ti[document.CanonicalIDProperty], canonical), "the canonical id is namespace[:canonical reference]:suffix, whatever form the requested id has")
	verifrt.Assert(verifrt.JSONEqual(ti[document.EquivalentIDProperty], want), "the equivalent ids are the canonical id followed by one id per equivalent reference, in order")
	verifrt.Assert(len(ti) == 4, "and nothing else")
}

// Harness_C18_TransformationInfoUnpublished: for an unpublished document: published = false, no canonical id,
// id = namespace[:label]:suffix[:initial state]; equivalent ids: the short form when an initial state is given, then
// the domain-hinted form when label and domain are given (the id itself when the label already names the domain);
// absent when empty.
func Harness_C18_TransformationInfoUnpublished() {
	ns := "did:" + verifrt.AnyAtom("method")
	suffix := "Ei" + verifrt.AnyAtom("suffix")
	label, domain, jcs := "", "", ""
	labelKind := verifrt.Choose("label", 3)
	switch labelKind {
	case 1:
		label = "interim" + verifrt.AnyAtom("label")
	case 2:
		label = "https:domain.com:" + verifrt.AnyAtom("label")
	}
	if verifrt.Choose("domain", 2) == 1 {
		domain = "domain.com"
	}
	if verifrt.Choose("initial-state", 2) == 1 {
		jcs = "ey" + verifrt.AnyAtom("state")
	}
	ti := GetTransformationInfoForUnpublished(ns, domain, label, suffix, jcs)
	short := ns + ":" + suffix
	if label != "" {
		short = ns + ":" + label + ":" + suffix
	}
	var want []interface{}
	if jcs != "" {
		want = append(want, short)
	}
	if label != "" && domain != "" {
		if labelKind == 2 { // the label already names the domain
			want = append(want, short)
		} else {
			want = append(want, ns+":"+domain+":"+label+":"+suffix)
		}
	}
	id := short
	if jcs != "" {
		id = short + ":" + jcs
	}
	verifrt.Reach("unpublished")
	verifrt.Assert(verifrt.JSONEqual(ti[document.IDProperty], id) && verifrt.JSONEqual(ti[document.PublishedProperty], false), "id = namespace[:label]:suffix[:initial state], published = false")
	_, hasCanonical := ti[document.CanonicalIDProperty]
	verifrt.Assert(!hasCanonical, "an unpublished document has no canonical id")
	eq, hasEq := ti[document.EquivalentIDProperty]
	if len(want) == 0 {
		verifrt.Assert(!hasEq, "no equivalent ids when there is neither an initial state nor a domain hint")
	} else {
		verifrt.Assert(hasEq && verifrt.JSONEqual(eq, want), "equivalent ids: short form (with an initial state), then the domain-hinted form")
	}
}
