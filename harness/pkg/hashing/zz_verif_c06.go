package hashing

import (
	"crypto"
	"encoding/base64"

	"github.com/multiformats/go-multihash"

	"github.com/trustbloc/sidetree-go/pkg/canonicalizer"
	verifrt "github.com/trustbloc/sidetree-go/pkg/internal/verifrt"
)

// anyModel: a JSON-serializable value with symbolic (opaque) leaves, in one of two shapes.
func anyModel(tag string) interface{} {
	switch verifrt.Choose(tag+"-shape", 3) {
	case 0:
		return map[string]interface{}{"a": verifrt.AnyAtom(tag + "-a"), "b": []interface{}{verifrt.AnyAtom(tag + "-b0"), verifrt.AnyBool(tag + "-b1")}}
	case 1:
		return map[string]interface{}{"a": verifrt.AnyAtom(tag + "-a"), "c": map[string]interface{}{"d": verifrt.AnyAtom(tag + "-d")}}
	}
	return struct {
		A string `json:"a"`
		N int64  `json:"n,omitempty"`
	}{A: verifrt.AnyAtom(tag + "-a"), N: verifrt.AnyI64(tag + "-n")}
}

// refModelHash: unpadded base64url( multihash(code, H(JCS(value))) ) composed from the primitives.
func refModelHash(v interface{}, h crypto.Hash, code uint64) string {
	jcs, err := canonicalizer.MarshalCanonical(v)
	if err != nil {
		verifrt.Fail("canonicalization of a serializable value failed")
		return ""
	}
	hh := h.New()
	hh.Write(jcs)
	mh, err := multihash.Encode(hh.Sum(nil), code)
	if err != nil {
		verifrt.Fail("multihash encoding with a supported code failed")
		return ""
	}
	return base64.RawURLEncoding.EncodeToString(mh)
}

// Harness_C06_ModelHash: the model multihash is b64url(multihash(code, H(JCS(v)))) for SHA-256/512 and an
// error for every other 64-bit code.
func Harness_C06_ModelHash() {
	v := anyModel("v")
	code := verifrt.AnyUint("code")
	got, err := CalculateModelMultihash(v, code)
	switch code {
	case 0x12:
		verifrt.Reach("sha2-256")
		verifrt.Assert(err == nil && got == refModelHash(v, crypto.SHA256, 0x12), "SHA-256 model hash = b64url(multihash(0x12, sha256(JCS(value))))")
	case 0x13:
		verifrt.Reach("sha2-512")
		verifrt.Assert(err == nil && got == refModelHash(v, crypto.SHA512, 0x13), "SHA-512 model hash = b64url(multihash(0x13, sha512(JCS(value))))")
	default:
		verifrt.Reach("unsupported")
		verifrt.Assert(err != nil, "every other multihash code is an error")
	}
	if err == nil {
		c, cerr := GetMultihashCode(got)
		verifrt.Assert(cerr == nil && c == uint64(code), "the code reported for an encoded hash is its prefix")
		verifrt.Assert(IsSupportedMultihash(got), "a computed model hash is a supported multihash")
		verifrt.Assert(IsValidModelMultihash(v, got) == nil, "a value validates against its own model hash")
	}
}

// Harness_C06_ContentAddress: validation succeeds exactly when the hash was computed from an equal JSON value
// with the algorithm named in the hash's own prefix (hashes idealised as collision-free).
func Harness_C06_ContentAddress() {
	v, w := anyModel("v"), anyModel("w")
	code := []uint{0x12, 0x13}[verifrt.Choose("alg", 2)]
	h, err := CalculateModelMultihash(w, code)
	if err != nil {
		verifrt.Fail("hashing with a supported algorithm failed")
		return
	}
	ok := IsValidModelMultihash(v, h) == nil
	if ok {
		verifrt.Reach("valid")
	} else {
		verifrt.Reach("invalid")
	}
	verifrt.Assert(ok == verifrt.JSONEqual(v, w), "IsValidModelMultihash(v, hash(w)) succeeds iff v and w are equal JSON values")
	// the encoding is the unpadded one: the same text with padding characters appended is not a well-formed hash
	padded := h + []string{"=", "=="}[verifrt.Choose("padding", 2)]
	_, perr := GetMultihashCode(padded)
	verifrt.Assert(perr != nil && IsValidModelMultihash(w, padded) != nil && !IsSupportedMultihash(padded) && !IsComputedUsingMultihashAlgorithms(padded, []uint{0x12, 0x13}),
		"a hash text with base64 padding appended is rejected as malformed")
	// another text that decodes to the same bytes (unused low bits of the last character set) is not the model hash
	if alt, changed := verifrt.AltBase64(h); changed {
		verifrt.Assert(IsValidModelMultihash(w, alt) != nil, "a non-canonical base64 spelling of the hash is not the value's hash")
	}
	// single-point modification of the hash text: one letter behind the prefix changes case
	if hv, herr := CalculateModelMultihash(v, code); herr == nil {
		if hc, changed := verifrt.SwapCase(hv); changed {
			verifrt.Assert(IsValidModelMultihash(v, hc) != nil, "a hash text with one letter's case changed is not the value's hash")
			c1, e1 := GetMultihashCode(hc)
			verifrt.Assert(e1 == nil && c1 == uint64(code), "a changed digest leaves the reported code as the prefix says")
		}
	}
	codes := []uint{verifrt.AnyUint("c0"), verifrt.AnyUint("c1"), verifrt.AnyUint("c2")}
	n := verifrt.Choose("ncodes", 4)
	in := false
	for _, c := range codes[:n] {
		if c == code {
			in = true
		}
	}
	verifrt.Assert(IsComputedUsingMultihashAlgorithms(h, codes[:n]) == in, "computed-with-one-of-these-algorithms agrees with the prefix")
}

// Harness_C06_Malformed: strings that are not a well-formed encoded multihash are rejected; the real
// go-multihash decoder is executed on symbolic buffers.
func Harness_C06_Malformed() {
	n := verifrt.Choose("len", 7)
	buf := verifrt.AnyBytes("buf", n)
	enc := base64.RawURLEncoding.EncodeToString(buf)
	mh, err := GetMultihash(enc)
	if err != nil {
		verifrt.Reach("rejected")
		verifrt.Assert(IsValidModelMultihash(map[string]interface{}{"a": "b"}, enc) != nil, "a value never validates against a malformed hash")
		verifrt.Assert(!IsSupportedMultihash(enc), "a malformed hash is not a supported multihash")
		verifrt.Assert(!IsComputedUsingMultihashAlgorithms(enc, []uint{0x12, 0x13}), "a malformed hash is computed with no algorithm")
		return
	}
	verifrt.Reach("decoded")
	// single-byte code and length prefixes: the structure is fully determined
	if n >= 2 && buf[0] < 0x80 && buf[1] < 0x80 {
		verifrt.Assert(mh.Code == uint64(buf[0]) && mh.Length == int(buf[1]) && len(mh.Digest) == n-2 && int(buf[1]) == n-2,
			"decoding succeeds only when the length field equals the digest length and nothing trails")
	}
}

// Harness_C06_RawDocuments: documents handed over as bytes: a malformed one (a bare token that is not a JSON value at
// the place of a number) has no model hash and does not validate against the hash of the document with 0 there.
func Harness_C06_RawDocuments() {
	code := []uint{0x12, 0x13}[verifrt.Choose("alg", 2)]
	good := []byte(`{"name":"n","version":0}`)
	bad := [][]byte{[]byte(`{"name":"n","version":x}`), []byte(`{"name":"n","version":True}`), []byte(`{"name":"n","version":0z}`), []byte(`{"name":"n","version":nul}`)}[verifrt.Choose("malformed", 4)]
	h, err := CalculateModelMultihash(good, code)
	if err != nil {
		verifrt.Fail("a well-formed document has no model hash")
		return
	}
	verifrt.Reach("hashed")
	_, berr := CalculateModelMultihash(bad, code)
	verifrt.Assert(berr != nil, "a malformed document has no model hash")
	verifrt.Assert(IsValidModelMultihash(bad, h) != nil, "a malformed document does not validate against the hash of a well-formed one")
}
