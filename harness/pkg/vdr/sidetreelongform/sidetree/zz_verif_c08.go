package sidetree

import (
	"errors"

	docdid "github.com/trustbloc/did-go/doc/did"
	"github.com/trustbloc/did-go/doc/did/endpoint"

	"github.com/trustbloc/sidetree-go/pkg/api/operation"
	"github.com/trustbloc/sidetree-go/pkg/api/protocol"
	gen "github.com/trustbloc/sidetree-go/pkg/internal/verifgen"
	verifrt "github.com/trustbloc/sidetree-go/pkg/internal/verifrt"
	"github.com/trustbloc/sidetree-go/pkg/jws"
	"github.com/trustbloc/sidetree-go/pkg/vdr/sidetreelongform/sidetree/doc"
	"github.com/trustbloc/sidetree-go/pkg/vdr/sidetreelongform/sidetree/option/create"
	"github.com/trustbloc/sidetree-go/pkg/vdr/sidetreelongform/sidetree/option/deactivate"
	"github.com/trustbloc/sidetree-go/pkg/vdr/sidetreelongform/sidetree/option/recovery"
	"github.com/trustbloc/sidetree-go/pkg/vdr/sidetreelongform/sidetree/option/update"
	"github.com/trustbloc/sidetree-go/pkg/versions/1_0/doccomposer"
	"github.com/trustbloc/sidetree-go/pkg/versions/1_0/operationapplier"
	"github.com/trustbloc/sidetree-go/pkg/versions/1_0/operationparser"
)

// c08Signer adapts a generated key pair to the client's signer interface.
type c08Signer struct{ s *gen.Signer }

func (c c08Signer) Sign(data []byte) ([]byte, error) { return c.s.S.Sign(data) }
func (c c08Signer) Headers() jws.Headers             { return c.s.S.Headers() }
func (c c08Signer) PublicKeyJWK() *jws.JWK           { return c.s.JWK }

type c08Client struct {
	parser  *operationparser.Parser
	applier *operationapplier.Applier
	ns      string
	last    []byte
	c       *Client
}

// step parses and applies the request the client has just handed to its transport.
func (e *c08Client) step(rm *protocol.ResolutionModel, typ operation.Type, txTime uint64, what string) *protocol.ResolutionModel {
	if e.last == nil {
		verifrt.Fail("the Sidetree client built no request: " + what)
		verifrt.Assume(false)
	}
	req := e.last
	e.last = nil
	op, err := e.parser.Parse(e.ns, req)
	if err != nil {
		verifrt.Observe("parse-error", err.Error())
		verifrt.Fail("a request produced by the Sidetree client is rejected by the parser: " + what)
		verifrt.Assume(false)
	}
	verifrt.Assert(op.Type == typ, "the Sidetree client's request has the requested type")
	st, err := e.applier.Apply(&operation.AnchoredOperation{Type: op.Type, UniqueSuffix: op.UniqueSuffix, OperationRequest: req,
		TransactionTime: txTime, TransactionNumber: 1, AnchorOrigin: op.AnchorOrigin}, rm)
	if err != nil {
		verifrt.Fail("a request produced by the Sidetree client is refused by the applier: " + what)
		verifrt.Assume(false)
	}
	return st
}

func c08HasKey(d map[string]interface{}, id string) bool {
	keys, _ := d["publicKey"].([]interface{})
	for _, k := range keys {
		if m, ok := k.(map[string]interface{}); ok && m["id"] == id {
			return true
		}
	}
	return false
}

// c08Service: the document's service with the given id has exactly the requested type, endpoint, recipient keys and
// routing keys.
func c08Service(d map[string]interface{}, id, typ, uri string, recipient, routing []string) bool {
	svcs, _ := d["service"].([]interface{})
	for _, e := range svcs {
		m, ok := e.(map[string]interface{})
		if !ok || m["id"] != id {
			continue
		}
		return m["type"] == typ && m["serviceEndpoint"] == uri && verifrt.JSONEqual(m["recipientKeys"], recipient) && verifrt.JSONEqual(m["routingKeys"], routing)
	}
	return false
}

func c08Aka(d map[string]interface{}) []interface{} {
	l, _ := d["alsoKnownAs"].([]interface{})
	return l
}

// Harness_C08_SidetreeClient: create -> update -> recover -> deactivate through the Sidetree client (CreateDID,
// UpdateDID, RecoverDID, DeactivateDID with a capturing transport), either hash algorithm, the protocol allowing that
// algorithm only or both: every request is accepted by the matching parser and applying them in order gives the
// requested keys, also-known-as URIs, commitments and flags.
func Harness_C08_SidetreeClient() {
	code := []uint{gen.SHA256, gen.SHA512}[verifrt.Choose("alg", 2)]
	p := gen.Protocol("p", false)
	if verifrt.Choose("configured", 2) == 0 {
		p.MultihashAlgorithms = []uint{code}
	} else {
		p.MultihashAlgorithms = []uint{gen.SHA256, gen.SHA512}
	}
	parser := operationparser.New(p)
	e := &c08Client{parser: parser, applier: operationapplier.New(p, parser, doccomposer.New()), ns: "did:" + verifrt.AnyAtom("method")}
	e.c = New(WithSidetreeOperationRequestFnc(func(req []byte, _ GetEndpointsFunc) ([]byte, error) {
		e.last = req
		return nil, errors.New("captured")
	}))
	upd1, rec1 := gen.NewSigner("upd1"), gen.NewSigner("rec1")
	upd2, rec2 := gen.NewSigner("upd2"), gen.NewSigner("rec2")
	upd3 := gen.NewSigner("upd3")
	verifrt.Assume(upd1.JWK.X != rec1.JWK.X && upd1.JWK.X != upd2.JWK.X && rec1.JWK.X != rec2.JWK.X && upd2.JWK.X != rec2.JWK.X &&
		upd1.JWK.X != rec2.JWK.X && upd2.JWK.X != rec1.JWK.X && upd3.JWK.X != upd2.JWK.X && upd3.JWK.X != rec2.JWK.X && upd3.JWK.X != rec1.JWK.X)

	key1 := &doc.PublicKey{ID: "key1", Type: doc.Ed25519VerificationKey2018, Purposes: []string{doc.KeyPurposeAuthentication}, B58Key: "b58" + verifrt.AnyAtom("k1")}
	key2 := &doc.PublicKey{ID: "key2", Type: doc.Ed25519VerificationKey2018, Purposes: []string{doc.KeyPurposeAssertionMethod}, B58Key: "b58" + verifrt.AnyAtom("k2")}
	aka1, aka2 := "https://aka.example/"+verifrt.AnyAtom("aka1"), "https://aka.example/"+verifrt.AnyAtom("aka2")
	verifrt.Assume(aka1 != aka2)
	withOrigin := verifrt.Choose("anchor-origin", 2) == 1
	origin := verifrt.AnyAtom("origin")

	svcURI := "https://svc.example/" + verifrt.AnyAtom("svc-uri")
	recipient, routing := []string{"did:key:" + verifrt.AnyAtom("recipient")}, []string{"did:key:" + verifrt.AnyAtom("mediator1"), "did:key:" + verifrt.AnyAtom("mediator2")}
	svc := &docdid.Service{ID: "svc1", Type: "DIDCommMessaging", ServiceEndpoint: endpoint.NewDIDCommV1Endpoint(svcURI), RecipientKeys: recipient, RoutingKeys: routing}
	copts := []create.Option{create.WithRecoveryPublicKey(&rec1.Priv.PublicKey), create.WithUpdatePublicKey(&upd1.Priv.PublicKey),
		create.WithPublicKey(key1), create.WithAlsoKnownAs(aka1), create.WithMultiHashAlgorithm(code), create.WithService(svc)}
	if withOrigin {
		copts = append(copts, create.WithAnchorOrigin(origin))
	}
	_, _ = e.c.CreateDID(copts...)
	if e.last == nil {
		verifrt.Fail("the Sidetree client built no create request")
		return
	}
	cop, cerr := parser.Parse(e.ns, e.last)
	if cerr != nil {
		verifrt.Fail("the create request produced by the Sidetree client is rejected by the parser")
		return
	}
	did := e.ns + ":" + cop.UniqueSuffix
	st := e.step(&protocol.ResolutionModel{}, operation.TypeCreate, 100, "create")
	verifrt.Assert(c08Service(st.Doc, "svc1", "DIDCommMessaging", svcURI, recipient, routing), "create through the Sidetree client installs the requested service with its endpoint, recipient keys and routing keys")
	verifrt.Assert(c08HasKey(st.Doc, "key1") && len(c08Aka(st.Doc)) == 1 && c08Aka(st.Doc)[0] == aka1 &&
		st.UpdateCommitment == gen.Commitment(upd1.JWK, code) && st.RecoveryCommitment == gen.Commitment(rec1.JWK, code) &&
		(!withOrigin || st.AnchorOrigin == origin), "create through the Sidetree client yields the requested document, commitments and anchor origin")
	verifrt.Reach("created")

	_ = e.c.UpdateDID(did, update.WithSigner(c08Signer{upd1}), update.WithNextUpdatePublicKey(&upd2.Priv.PublicKey),
		update.WithOperationCommitment(st.UpdateCommitment), update.WithMultiHashAlgorithm(code),
		update.WithAddAlsoKnownAs(aka2), update.WithRemovePublicKey("key1"), update.WithAddPublicKey(key2),
		update.WithRemoveService("svc1"), update.WithAddService(&docdid.Service{ID: "svc2", Type: "DIDCommMessaging",
			ServiceEndpoint: endpoint.NewDIDCommV1Endpoint(svcURI), RecipientKeys: routing[:1], RoutingKeys: recipient}))
	st = e.step(st, operation.TypeUpdate, 200, "update")
	verifrt.Assert(c08Service(st.Doc, "svc2", "DIDCommMessaging", svcURI, routing[:1], recipient) && !c08Service(st.Doc, "svc1", "DIDCommMessaging", svcURI, recipient, routing),
		"update through the Sidetree client removes and adds the requested services")
	verifrt.Assert(!c08HasKey(st.Doc, "key1") && c08HasKey(st.Doc, "key2") && len(c08Aka(st.Doc)) == 2 &&
		st.UpdateCommitment == gen.Commitment(upd2.JWK, code) && st.RecoveryCommitment == gen.Commitment(rec1.JWK, code),
		"update through the Sidetree client yields the patched document and advances only the update commitment")
	verifrt.Reach("updated")

	ropts := []recovery.Option{recovery.WithSigner(c08Signer{rec1}), recovery.WithNextRecoveryPublicKey(&rec2.Priv.PublicKey),
		recovery.WithNextUpdatePublicKey(&upd3.Priv.PublicKey), recovery.WithOperationCommitment(st.RecoveryCommitment),
		recovery.WithMultiHashAlgorithm(code), recovery.WithPublicKey(key1)}
	if withOrigin {
		ropts = append(ropts, recovery.WithAnchorOrigin(origin))
	}
	_ = e.c.RecoverDID(did, ropts...)
	st = e.step(st, operation.TypeRecover, 300, "recover")
	verifrt.Assert(c08HasKey(st.Doc, "key1") && !c08HasKey(st.Doc, "key2") && len(c08Aka(st.Doc)) == 0 &&
		st.UpdateCommitment == gen.Commitment(upd3.JWK, code) && st.RecoveryCommitment == gen.Commitment(rec2.JWK, code),
		"recover through the Sidetree client installs the new document and both new commitments")
	verifrt.Reach("recovered")

	_ = e.c.DeactivateDID(did, deactivate.WithSigner(c08Signer{rec2}), deactivate.WithOperationCommitment(st.RecoveryCommitment))
	st = e.step(st, operation.TypeDeactivate, 400, "deactivate")
	verifrt.Assert(st.Deactivated && st.UpdateCommitment == "" && st.RecoveryCommitment == "", "deactivate through the Sidetree client deactivates the DID")
	verifrt.Reach("deactivated")
}

// Harness_C08_SidetreeClientUpdateOptions: every subset of the six patch options of UpdateDID (add / remove
// also-known-as, keys, services) on a DID created with one key, one service and one URI: the request the client builds is
// accepted, and applying it gives exactly what each option asked for - no option is lost because another one is present.
func Harness_C08_SidetreeClientUpdateOptions() {
	code := uint(gen.SHA256)
	p := gen.Protocol("p", false)
	parser := operationparser.New(p)
	e := &c08Client{parser: parser, applier: operationapplier.New(p, parser, doccomposer.New()), ns: "did:" + verifrt.AnyAtom("method")}
	e.c = New(WithSidetreeOperationRequestFnc(func(req []byte, _ GetEndpointsFunc) ([]byte, error) {
		e.last = req
		return nil, errors.New("captured")
	}))
	upd1, rec1, upd2 := gen.NewSigner("upd1"), gen.NewSigner("rec1"), gen.NewSigner("upd2")
	verifrt.Assume(upd1.JWK.X != rec1.JWK.X && upd1.JWK.X != upd2.JWK.X && upd2.JWK.X != rec1.JWK.X)
	key1 := &doc.PublicKey{ID: "key1", Type: doc.Ed25519VerificationKey2018, Purposes: []string{doc.KeyPurposeAuthentication}, B58Key: "b58" + verifrt.AnyAtom("k1")}
	key2 := &doc.PublicKey{ID: "key2", Type: doc.Ed25519VerificationKey2018, Purposes: []string{doc.KeyPurposeAssertionMethod}, B58Key: "b58" + verifrt.AnyAtom("k2")}
	aka1, aka2 := "https://aka.example/"+verifrt.AnyAtom("aka1"), "https://aka.example/"+verifrt.AnyAtom("aka2")
	verifrt.Assume(aka1 != aka2)
	svcURI := "https://svc.example/" + verifrt.AnyAtom("svc-uri")
	svc1 := &docdid.Service{ID: "svc1", Type: "DIDCommMessaging", ServiceEndpoint: endpoint.NewDIDCommV1Endpoint(svcURI)}
	svc2 := &docdid.Service{ID: "svc2", Type: "DIDCommMessaging", ServiceEndpoint: endpoint.NewDIDCommV1Endpoint(svcURI)}
	_, _ = e.c.CreateDID(create.WithRecoveryPublicKey(&rec1.Priv.PublicKey), create.WithUpdatePublicKey(&upd1.Priv.PublicKey),
		create.WithPublicKey(key1), create.WithAlsoKnownAs(aka1), create.WithMultiHashAlgorithm(code), create.WithService(svc1))
	if e.last == nil {
		verifrt.Fail("the Sidetree client built no create request")
		return
	}
	cop, cerr := parser.Parse(e.ns, e.last)
	if cerr != nil {
		verifrt.Fail("the create request produced by the Sidetree client is rejected by the parser")
		return
	}
	did := e.ns + ":" + cop.UniqueSuffix
	st := e.step(&protocol.ResolutionModel{}, operation.TypeCreate, 100, "create")

	addAka, rmAka := verifrt.Choose("add-aka", 2) == 1, verifrt.Choose("remove-aka", 2) == 1
	addKey, rmKey := verifrt.Choose("add-key", 2) == 1, verifrt.Choose("remove-key", 2) == 1
	addSvc, rmSvc := verifrt.Choose("add-service", 2) == 1, verifrt.Choose("remove-service", 2) == 1
	verifrt.Assume(addAka || rmAka || addKey || rmKey || addSvc || rmSvc)
	opts := []update.Option{update.WithSigner(c08Signer{upd1}), update.WithNextUpdatePublicKey(&upd2.Priv.PublicKey),
		update.WithOperationCommitment(st.UpdateCommitment), update.WithMultiHashAlgorithm(code)}
	if addAka {
		opts = append(opts, update.WithAddAlsoKnownAs(aka2))
	}
	if rmAka {
		opts = append(opts, update.WithRemoveAlsoKnownAs(aka1))
	}
	if addKey {
		opts = append(opts, update.WithAddPublicKey(key2))
	}
	if rmKey {
		opts = append(opts, update.WithRemovePublicKey("key1"))
	}
	if addSvc {
		opts = append(opts, update.WithAddService(svc2))
	}
	if rmSvc {
		opts = append(opts, update.WithRemoveService("svc1"))
	}
	e.last = nil
	_ = e.c.UpdateDID(did, opts...)
	st = e.step(st, operation.TypeUpdate, 200, "update")
	verifrt.Reach("updated")
	var wantAka []interface{}
	if !rmAka {
		wantAka = append(wantAka, aka1)
	}
	if addAka {
		wantAka = append(wantAka, aka2)
	}
	aka := c08Aka(st.Doc)
	okAka := len(aka) == len(wantAka)
	for i := 0; okAka && i < len(aka); i++ {
		okAka = aka[i] == wantAka[i]
	}
	verifrt.Assert(okAka, "the also-known-as URIs after the update are the created ones minus those removed plus those added")
	verifrt.Assert(c08HasKey(st.Doc, "key1") == !rmKey && c08HasKey(st.Doc, "key2") == addKey, "the keys after the update are the created ones minus those removed plus those added")
	verifrt.Assert(c08Service(st.Doc, "svc1", "DIDCommMessaging", svcURI, nil, nil) == !rmSvc && c08Service(st.Doc, "svc2", "DIDCommMessaging", svcURI, nil, nil) == addSvc,
		"the services after the update are the created ones minus those removed plus those added")
	verifrt.Assert(st.UpdateCommitment == gen.Commitment(upd2.JWK, code), "the update advances the update commitment")
}
