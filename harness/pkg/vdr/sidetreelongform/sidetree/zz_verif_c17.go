package sidetree

import (
	"errors"

	docdid "github.com/trustbloc/did-go/doc/did"
	"github.com/trustbloc/did-go/doc/did/endpoint"

	gen "github.com/trustbloc/sidetree-go/pkg/internal/verifgen"
	verifrt "github.com/trustbloc/sidetree-go/pkg/internal/verifrt"
	"github.com/trustbloc/sidetree-go/pkg/vdr/sidetreelongform/dochandler"
	"github.com/trustbloc/sidetree-go/pkg/vdr/sidetreelongform/sidetree/doc"
	"github.com/trustbloc/sidetree-go/pkg/vdr/sidetreelongform/sidetree/option/create"
)

// Harness_C17_ClientCreateResolve: the create request the Sidetree client builds from a key, a service (endpoint,
// recipient keys, routing keys) and an also-known-as URI is processed by the document handler into a long-form DID
// which resolves offline to a document carrying exactly those values; the same options give the same DID.
func Harness_C17_ClientCreateResolve() {
	ns := "did:" + verifrt.AnyAtom("method")
	h, err := dochandler.New(ns)
	if err != nil {
		verifrt.Fail("handler construction failed")
		return
	}
	var reqs [][]byte
	c := New(WithSidetreeOperationRequestFnc(func(req []byte, _ GetEndpointsFunc) ([]byte, error) {
		reqs = append(reqs, req)
		return nil, errors.New("captured")
	}))
	upd, rec := gen.NewSigner("upd"), gen.NewSigner("rec")
	verifrt.Assume(upd.JWK.X != rec.JWK.X)
	key := &doc.PublicKey{ID: "key1", Type: doc.Ed25519VerificationKey2018, Purposes: []string{doc.KeyPurposeAuthentication}, B58Key: "b58" + verifrt.AnyAtom("k1")}
	uri := "https://svc.example/" + verifrt.AnyAtom("svc-uri")
	recipient, routing := []string{"did:key:" + verifrt.AnyAtom("recipient")}, []string{"did:key:" + verifrt.AnyAtom("mediator1"), "did:key:" + verifrt.AnyAtom("mediator2")}
	svc := &docdid.Service{ID: "svc1", Type: "DIDCommMessaging", ServiceEndpoint: endpoint.NewDIDCommV1Endpoint(uri), RecipientKeys: recipient, RoutingKeys: routing}
	aka := "https://aka.example/" + verifrt.AnyAtom("aka")
	opts := []create.Option{create.WithRecoveryPublicKey(&rec.Priv.PublicKey), create.WithUpdatePublicKey(&upd.Priv.PublicKey),
		create.WithPublicKey(key), create.WithService(svc), create.WithAlsoKnownAs(aka)}
	_, _ = c.CreateDID(opts...)
	_, _ = c.CreateDID(opts...)
	if len(reqs) != 2 {
		verifrt.Fail("the Sidetree client built no create request")
		return
	}
	verifrt.Assert(string(reqs[0]) == string(reqs[1]), "creation is deterministic: the same options give the same create request")
	res, err := h.ProcessOperation(reqs[0])
	if err != nil {
		verifrt.Fail("the create request built by the Sidetree client is refused by the document handler")
		return
	}
	did := res.Document.ID()
	resolved, err := h.ResolveDocument(did)
	if err != nil {
		verifrt.Fail("the long-form DID returned for a create request does not resolve")
		return
	}
	verifrt.Reach("resolved")
	verifrt.Assert(resolved.Document.ID() == did, "the resolved document's id is the long-form DID")
	d, _ := gen.JSONValue(gen.JSON(resolved.Document)).(map[string]interface{}) // typed lists -> generic JSON value
	svcs, _ := d["service"].([]interface{})
	okSvc := false
	for _, e := range svcs {
		if m, isMap := e.(map[string]interface{}); isMap {
			okSvc = verifrt.JSONEqual(m["recipientKeys"], recipient) && verifrt.JSONEqual(m["routingKeys"], routing) && m["serviceEndpoint"] == uri && m["type"] == "DIDCommMessaging"
		}
	}
	verifrt.Assert(len(svcs) == 1 && okSvc, "the resolved document carries the supplied service with its endpoint, recipient keys and routing keys")
	akas, _ := d["alsoKnownAs"].([]interface{})
	verifrt.Assert(len(akas) == 1 && akas[0] == aka, "the resolved document carries the supplied also-known-as URI")
}
