package sidetreelongform

import (
	"crypto/ed25519"
	"crypto/rand"

	docdid "github.com/trustbloc/did-go/doc/did"
	vdrapi "github.com/trustbloc/did-go/vdr/api"

	verifrt "github.com/trustbloc/sidetree-go/pkg/internal/verifrt"
	"github.com/trustbloc/sidetree-go/pkg/vdr/sidetreelongform/sidetree/option/create"
)

// capturingClient records the create options VDR.Create hands to the Sidetree client.
type capturingClient struct {
	opts create.Opts
}

func (c *capturingClient) CreateDID(opts ...create.Option) (*docdid.DocResolution, error) {
	c.opts = create.Opts{}
	for _, o := range opts {
		o(&c.opts)
	}
	return &docdid.DocResolution{}, nil
}

func keyIDs(o create.Opts) string {
	s := ""
	for _, k := range o.PublicKeys {
		s += k.ID + "|"
		for _, p := range k.Purposes {
			s += p + ","
		}
		s += ";"
	}
	return s
}

// Harness_C17_CreateDeterministic: the same document and the same update and recovery keys always give the same
// create request - whatever order the Go runtime iterates its maps in (symbolic run: every order; native: repeated).
func Harness_C17_CreateDeterministic() {
	verifrt.SymbolicMapOrder(true)
	n := 2 + verifrt.Choose("keys", 2)
	doc := &docdid.Doc{}
	for i := 0; i < n; i++ {
		id := "key" + string(rune('1'+i))
		vm := docdid.VerificationMethod{ID: "#" + id, Type: "Ed25519VerificationKey2018", Value: []byte("0123456789abcdef0123456789abcdef")}
		doc.Authentication = append(doc.Authentication, docdid.Verification{VerificationMethod: vm, Relationship: docdid.Authentication})
		if i == 0 {
			doc.AssertionMethod = append(doc.AssertionMethod, docdid.Verification{VerificationMethod: vm, Relationship: docdid.AssertionMethod})
		}
	}
	upd, _, err1 := ed25519.GenerateKey(rand.Reader)
	rec, _, err2 := ed25519.GenerateKey(rand.Reader)
	verifrt.Assume(err1 == nil && err2 == nil)
	run := func() string {
		c := &capturingClient{}
		v := &VDR{method: "ion", sidetreeClient: c}
		_, err := v.Create(doc, vdrapi.WithOption(UpdatePublicKeyOpt, upd), vdrapi.WithOption(RecoveryPublicKeyOpt, rec))
		if err != nil {
			verifrt.Fail("VDR.Create fails on a valid document")
		}
		return keyIDs(c.opts)
	}
	first := run()
	verifrt.Reach("created")
	same := true
	for i := 0; i < verifrt.NativeRetries(60); i++ {
		if run() != first {
			same = false
			break
		}
	}
	verifrt.Assert(same, "creation is deterministic: the same document gives the same create request")
}
