package dochandler

import (
	gen "github.com/trustbloc/sidetree-go/pkg/internal/verifgen"
	verifrt "github.com/trustbloc/sidetree-go/pkg/internal/verifrt"
	"github.com/trustbloc/sidetree-go/pkg/document"
)

// Harness_C20_SharedHandler: one document handler (with its parser, applier, composer, transformer and version
// registries) shared by three goroutines resolving / processing distinct inputs: no call writes shared state
// outside a lock (so concurrent calls only read it) and the results equal those of sequential calls.
func Harness_C20_SharedHandler() {
	ns := "did:" + verifrt.AnyAtom("method")
	h, err := New(ns)
	if err != nil {
		verifrt.Fail("handler construction failed")
		return
	}
	c1, s1, st1 := c17Create("a")
	_, s2, st2 := c17Create("b")
	did1, did2 := ns+":"+s1+":"+st1, ns+":"+s2+":"+st2
	// sequential reference results come from a second handler: the shared one is used for the first time by the
	// concurrent calls (lazily initialised state would be raced for)
	ref, rerr := New(ns)
	if rerr != nil {
		verifrt.Fail("handler construction failed")
		return
	}
	seq1, e1 := ref.ResolveDocument(did1)
	seq2, e2 := ref.ResolveDocument(did2)
	var r1, r2, r3 *document.ResolutionResult
	var x1, x2, x3 error
	verifrt.Concurrent(
		func() { r1, x1 = h.ResolveDocument(did1) },
		func() { r2, x2 = h.ResolveDocument(did2) },
		func() { r3, x3 = h.ProcessOperation(gen.JSON(c1.Request)) },
	)
	verifrt.Reach("done")
	if e1 != nil || e2 != nil || x1 != nil || x2 != nil || x3 != nil {
		verifrt.Fail("resolution of a valid long-form DID fails")
		return
	}
	verifrt.Assert(verifrt.JSONEqual(r1.Document, seq1.Document) && verifrt.JSONEqual(r2.Document, seq2.Document) && verifrt.JSONEqual(r3.Document, seq1.Document),
		"concurrent calls on distinct inputs return the same results as sequential calls")
}
