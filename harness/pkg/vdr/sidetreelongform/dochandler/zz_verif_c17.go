package dochandler

import (
	"github.com/trustbloc/sidetree-go/pkg/canonicalizer"
	"github.com/trustbloc/sidetree-go/pkg/document"
	"github.com/trustbloc/sidetree-go/pkg/encoder"
	gen "github.com/trustbloc/sidetree-go/pkg/internal/verifgen"
	verifrt "github.com/trustbloc/sidetree-go/pkg/internal/verifrt"
)

func c17Create(tag string) (*gen.Create, string, string) {
	c := gen.NewCreate(tag, gen.SHA256, gen.ReplacePatch(tag+"-rp"))
	canon, err := canonicalizer.MarshalCanonical(c.Request)
	if err != nil {
		verifrt.Fail("canonicalization of a create request failed")
		verifrt.Assume(false)
	}
	return c, gen.ModelHash(c.Suffix, gen.SHA256), encoder.EncodeToString(canon)
}

func methodMeta(res *document.ResolutionResult) document.Metadata {
	m, _ := res.DocumentMetadata[document.MethodProperty].(document.Metadata)
	return m
}

// Harness_C17_ResolveLongForm: a long-form DID built from a valid create request resolves offline to a document
// whose id is that DID, with the short form as equivalent id and the request's commitments; every tampering
// (other namespace sharing a prefix, short form, non-canonical or padded initial state, mismatching suffix, DID URL tails) is rejected.
func Harness_C17_ResolveLongForm() {
	ns := "did:" + verifrt.AnyAtom("method")
	h, err := New(ns)
	if err != nil {
		verifrt.Fail("handler construction failed")
		return
	}
	c, suffix, state := c17Create("c")
	did := ns + ":" + suffix + ":" + state
	tamper := verifrt.Choose("tamper", 13)
	switch tamper {
	case 10: // DID URL tails behind the initial state: fragment, query, path
		did = did + "#" + verifrt.AnyAtom("fragment")
	case 11:
		did = did + "?service=" + verifrt.AnyAtom("query")
	case 12:
		did = did + "/" + verifrt.AnyAtom("path")
	case 1: // another method whose name has the handler's as a prefix
		did = ns + "x:" + suffix + ":" + state
	case 2: // short form
		did = ns + ":" + suffix
	case 3: // initial state in struct (non-canonical) member order
		did = ns + ":" + suffix + ":" + encoder.EncodeToString(gen.JSON(c.Request))
	case 4: // padded base64
		did = ns + ":" + suffix + ":" + state + "="
	case 5: // suffix of another create request
		_, other, _ := c17Create("o")
		verifrt.Assume(other != suffix)
		did = ns + ":" + other + ":" + state
	case 6: // initial state of another create request
		_, _, otherState := c17Create("o")
		verifrt.Assume(otherState != state)
		did = ns + ":" + suffix + ":" + otherState
	case 7: // namespace missing
		did = suffix + ":" + state
	case 8: // characters in front of the suffix
		did = ns + ":" + "x" + verifrt.AnyAtom("junk") + suffix + ":" + state
	case 9: // characters behind the suffix
		did = ns + ":" + suffix + "x" + ":" + state
	}
	res, err := h.ResolveDocument(did)
	if tamper != 0 {
		verifrt.Reach("tampered")
		verifrt.Assert(err != nil, "DIDs of another method (even one sharing a name prefix), short-form DIDs, non-canonical or tampered initial states and mismatching suffixes are rejected")
		return
	}
	if err != nil {
		verifrt.Fail("a long-form DID built from a valid create request does not resolve")
		return
	}
	verifrt.Reach("resolved")
	verifrt.Assert(res.Document.ID() == did, "the resolved document's id is the requested long-form DID")
	verifrt.Assert(verifrt.JSONEqual(res.DocumentMetadata[document.EquivalentIDProperty], []interface{}{ns + ":" + suffix}), "metadata names the short form as equivalent id")
	mm := methodMeta(res)
	verifrt.Assert(verifrt.JSONEqual(mm[document.RecoveryCommitmentProperty], c.Suffix.RecoveryCommitment) && verifrt.JSONEqual(mm[document.UpdateCommitmentProperty], c.Delta.UpdateCommitment) &&
		verifrt.JSONEqual(mm[document.PublishedProperty], false), "metadata reports the create request's commitments, unpublished")
	vms, _ := res.Document[document.VerificationMethodProperty].([]document.PublicKey)
	svcs, _ := res.Document[document.ServiceProperty].([]document.Service)
	verifrt.Assert(len(vms) == 1 && len(svcs) == 1 && vms[0].Controller() == did, "the resolved document carries the supplied key and service, controlled by the DID")
}

// Harness_C17_NonCanonicalBase64: an initial state whose text differs from the canonical unpadded base64url
// encoding only in the unused low bits of its last character (it decodes to the same bytes) is rejected.
func Harness_C17_NonCanonicalBase64() {
	ns := "did:" + verifrt.AnyAtom("method")
	h, err := New(ns)
	if err != nil {
		verifrt.Fail("handler construction failed")
		return
	}
	// natively: vary the request until its canonical length leaves unused bits in the last character
	var suffix, alt string
	ok := false
	c := gen.NewCreate("c", gen.SHA256, gen.ReplacePatch("c-rp"))
	for i := 0; i < verifrt.NativeRetries(3) && !ok; i++ {
		c.Suffix.Type = "ttt"[:i+1]
		canon, cerr := canonicalizer.MarshalCanonical(c.Request)
		verifrt.Assume(cerr == nil)
		suffix = gen.ModelHash(c.Suffix, gen.SHA256)
		alt, ok = verifrt.AltBase64(encoder.EncodeToString(canon))
	}
	verifrt.Assume(ok)
	_, err = h.ResolveDocument(ns + ":" + suffix + ":" + alt)
	verifrt.Reach("checked")
	verifrt.Assert(err != nil, "an initial state that is not the exact unpadded base64url encoding is rejected")
}

// Harness_C17_ProcessCreate: processing a create request returns the same result as resolving its long-form DID;
// a valid request of another type is answered with an error (C19: not a panic).
func Harness_C17_ProcessCreate() {
	ns := "did:" + verifrt.AnyAtom("method")
	h, err := New(ns)
	if err != nil {
		verifrt.Fail("handler construction failed")
		return
	}
	c, suffix, state := c17Create("c")
	res, err := h.ProcessOperation(gen.JSON(c.Request))
	if err != nil {
		verifrt.Fail("processing a valid create request fails")
		return
	}
	verifrt.Reach("processed")
	did := ns + ":" + suffix + ":" + state
	verifrt.Assert(res.Document.ID() == did, "processing a create request returns a document whose id is the long-form DID")
	res2, err2 := h.ResolveDocument(res.Document.ID())
	verifrt.Assert(err2 == nil && res2 != nil && verifrt.JSONEqual(res2.Document, res.Document), "the returned long-form DID resolves to the same document")
}

// Harness_C19_ProcessOtherTypes: valid requests of an unexpected type.
func Harness_C19_ProcessOtherTypes() {
	ns := "did:" + verifrt.AnyAtom("method")
	h, err := New(ns)
	if err != nil {
		verifrt.Fail("handler construction failed")
		return
	}
	suffix := "sfx" + verifrt.AnyAtom("suffix")
	var buf []byte
	switch verifrt.Choose("type", 3) {
	case 0:
		buf = gen.JSON(gen.NewUpdate(suffix, gen.SHA256, gen.NewSigner("u"), gen.Key("n"), 0, 0, gen.KeyPatch("kp")).Request)
	case 1:
		buf = gen.JSON(gen.NewRecover(suffix, gen.SHA256, gen.NewSigner("r"), gen.Key("nr"), gen.Key("nu"), 0, 0, gen.ReplacePatch("rp")).Request)
	case 2:
		buf = gen.JSON(gen.NewDeactivate(suffix, gen.SHA256, gen.NewSigner("r"), 0, 0).Request)
	}
	_, err = h.ProcessOperation(buf)
	verifrt.Reach("answered")
	verifrt.Assert(err != nil, "a valid operation of an unexpected type is answered with an error")
}

// Harness_C17_NamespaceGate: handler namespace and the DID's leading part are symbolic bytes (same length or one
// byte longer): the DID resolves only if it begins with the handler's namespace followed by a colon.
func Harness_C17_NamespaceGate() {
	m := verifrt.AnyStr("method", 2)
	verifrt.Assume(m[0] != ':' && m[1] != ':')
	ns := "did:" + m
	h, err := New(ns)
	if err != nil {
		verifrt.Fail("handler construction failed")
		return
	}
	_, suffix, state := c17Create("c")
	lead := verifrt.AnyStr("did-lead", len(ns)+verifrt.Choose("lead-extra", 2))
	did := lead + ":" + suffix + ":" + state
	_, err = h.ResolveDocument(did)
	if err != nil {
		verifrt.Reach("rejected")
		verifrt.Assert(lead != ns, "a long-form DID of the handler's own namespace resolves")
		return
	}
	verifrt.Reach("resolved")
	verifrt.Assert((lead + ":")[:len(ns)+1] == ns+":", "a handler resolves a DID only if it begins with its own namespace followed by a colon")
}

// Harness_C17_HandlerHistory: what a handler answers does not depend on what it has resolved before. After a genuine
// long-form DID has been resolved (or its create request processed), the same handler still refuses a DID that pairs
// that suffix with another initial state, and resolves a second genuine DID to a document with its own id and
// commitments; resolving the first DID again returns the same document.
func Harness_C17_HandlerHistory() {
	ns := "did:" + verifrt.AnyAtom("method")
	h, err := New(ns)
	if err != nil {
		verifrt.Fail("handler construction failed")
		return
	}
	c, suffix, state := c17Create("c")
	did := ns + ":" + suffix + ":" + state
	var first *document.ResolutionResult
	if verifrt.Choose("first-call", 2) == 0 {
		first, err = h.ResolveDocument(did)
	} else {
		first, err = h.ProcessOperation(gen.JSON(c.Request))
	}
	if err != nil {
		verifrt.Fail("a long-form DID built from a valid create request does not resolve")
		return
	}
	firstDoc := gen.JSON(first.Document)
	o, otherSuffix, otherState := c17Create("o")
	verifrt.Assume(otherState != state)
	verifrt.Assume(otherSuffix != suffix)
	switch verifrt.Choose("second-call", 4) {
	case 0: // the resolved suffix with another request's initial state
		_, err = h.ResolveDocument(ns + ":" + suffix + ":" + otherState)
		verifrt.Reach("forged-after-genuine")
		verifrt.Assert(err != nil, "a DID pairing an already resolved suffix with another initial state is rejected")
	case 1: // the resolved suffix with an initial state that is not a create request at all
		_, err = h.ResolveDocument(ns + ":" + suffix + ":" + encoder.EncodeToString([]byte("{}")))
		verifrt.Reach("empty-after-genuine")
		verifrt.Assert(err != nil, "a DID pairing an already resolved suffix with an empty initial state is rejected")
	case 2: // a second genuine DID
		otherDID := ns + ":" + otherSuffix + ":" + otherState
		res, rerr := h.ResolveDocument(otherDID)
		if rerr != nil {
			verifrt.Fail("a second genuine long-form DID does not resolve on a handler that has resolved another")
			return
		}
		verifrt.Reach("second-genuine")
		verifrt.Assert(res.Document.ID() == otherDID, "the second document's id is the second DID")
		mm := methodMeta(res)
		verifrt.Assert(verifrt.JSONEqual(mm[document.RecoveryCommitmentProperty], o.Suffix.RecoveryCommitment) && verifrt.JSONEqual(mm[document.UpdateCommitmentProperty], o.Delta.UpdateCommitment),
			"the second result reports the second request's commitments")
		verifrt.Assert(string(gen.JSON(first.Document)) == string(firstDoc), "the first result is unchanged by the second resolution")
	case 3: // the same DID again
		res, rerr := h.ResolveDocument(did)
		if rerr != nil {
			verifrt.Fail("a genuine long-form DID does not resolve the second time")
			return
		}
		verifrt.Reach("again")
		verifrt.Assert(string(gen.JSON(res.Document)) == string(firstDoc) && res.Document.ID() == did, "resolving the same DID again returns the same document")
		verifrt.Assert(verifrt.JSONEqual(res.DocumentMetadata, first.DocumentMetadata), "and the same metadata")
	}
}
