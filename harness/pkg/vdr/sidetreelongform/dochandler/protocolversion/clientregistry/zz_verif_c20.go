package clientregistry

import (
	"github.com/trustbloc/sidetree-go/pkg/api/protocol"
	verifrt "github.com/trustbloc/sidetree-go/pkg/internal/verifrt"
	"github.com/trustbloc/sidetree-go/pkg/vdr/sidetreelongform/dochandler/protocolversion/versions/common"
)

type stubFactory struct{}

func (f *stubFactory) Create(version string, config *common.ProtocolConfig) (protocol.Version, error) {
	return &common.ProtocolVersion{VersionStr: version}, nil
}

// Harness_C20_ClientRegistry: concurrent registration of version factories and creation of client versions.
func Harness_C20_ClientRegistry() {
	r := New()
	cfg := &common.ProtocolConfig{}
	var v1 protocol.Version
	var e1 error
	verifrt.Concurrent(
		func() { r.Register("2.0", &stubFactory{}) },
		func() { v1, e1 = r.CreateClientVersion("1.0", cfg) },
		func() { r.Register("3.1", &stubFactory{}) },
	)
	verifrt.Reach("done")
	verifrt.Assert(e1 == nil && v1 != nil && v1.Version() == "1.0", "a lookup concurrent with registrations finds the version registered before")
	v2, e2 := r.CreateClientVersion("2.0", cfg)
	v3, e3 := r.CreateClientVersion("3.1", cfg)
	verifrt.Assert(e2 == nil && v2 != nil && e3 == nil && v3 != nil, "concurrently registered versions are all present afterwards")
}

// Harness_C20_ClientRegistryLookups: concurrent lookups of different registered versions (lookups only read the
// registry: nothing they share is written) and the results are those of sequential lookups.
func Harness_C20_ClientRegistryLookups() {
	r := New()
	cfg := &common.ProtocolConfig{}
	r.Register("2.0", &stubFactory{}) // "1.0" is registered by New
	var v1, v2, v3 protocol.Version
	var e1, e2, e3 error
	verifrt.Concurrent(
		func() { v1, e1 = r.CreateClientVersion("1.0", cfg) },
		func() { v2, e2 = r.CreateClientVersion("2.0", cfg) },
		func() { v3, e3 = r.CreateClientVersion("1.0", cfg) },
	)
	verifrt.Reach("done")
	verifrt.Assert(e1 == nil && e2 == nil && e3 == nil && v1 != nil && v2 != nil && v3 != nil && v1.Version() == "1.0" && v2.Version() == "2.0" && v3.Version() == "1.0",
		"concurrent lookups return the versions sequential lookups return")
}
