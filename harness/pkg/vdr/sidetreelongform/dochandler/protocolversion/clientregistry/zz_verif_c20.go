package clientregistry

import (
	"github.com/trustbloc/sidetree-go/pkg/api/protocol"
	verifrt "github.com/trustbloc/sidetree-go/pkg/internal/verifrt"
	"github.com/trustbloc/sidetree-go/pkg/vdr/sidetreelongform/dochandler/protocolversion/versions/common"
)

type stubFactory struct{}

func (f *stubFactory) Create(version string, config *common.ProtocolConfig) (protocol.Version, error) {
	return &common.ProtocolVersion{VersionStr: version}, nil
}

// Harness_C20_ClientRegistry: concurrent registration of version factories and creation of client versions.
func Harness_C20_ClientRegistry() {
	r := New()
	cfg := &common.ProtocolConfig{}
	var v1 protocol.Version
	var e1 error
	verifrt.Concurrent(
		func() { r.Register("2.0", &stubFactory{}) },
		func() { v1, e1 = r.CreateClientVersion("1.0", cfg) },
		func() { r.Register("3.1", &stubFactory{}) },
	)
	verifrt.Reach("done")
	verifrt.Assert(e1 == nil && v1 != nil && v1.Version() == "1.0", "a lookup concurrent with registrations finds the version registered before")
	v2, e2 := r.CreateClientVersion("2.0", cfg)
	v3, e3 := r.CreateClientVersion("3.1", cfg)
	verifrt.Assert(e2 == nil && v2 != nil && e3 == nil && v3 != nil, "concurrently registered versions are all present afterwards")
}
