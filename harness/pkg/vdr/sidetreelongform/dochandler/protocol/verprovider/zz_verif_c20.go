package verprovider

import (
	"github.com/trustbloc/sidetree-go/pkg/api/protocol"
	verifrt "github.com/trustbloc/sidetree-go/pkg/internal/verifrt"
	"github.com/trustbloc/sidetree-go/pkg/vdr/sidetreelongform/dochandler/protocolversion/versions/common"
)

// Harness_C20_VersionProvider: concurrent lookups of protocol versions by time and of the current version.
func Harness_C20_VersionProvider() {
	v1 := &common.ProtocolVersion{VersionStr: "1.0", P: protocol.Protocol{GenesisTime: 1}}
	v2 := &common.ProtocolVersion{VersionStr: "2.0", P: protocol.Protocol{GenesisTime: 2}}
	c, err := New([]protocol.Version{v2, v1})
	if err != nil {
		verifrt.Fail("provider construction failed")
		return
	}
	t := verifrt.AnyU64("time")
	var a, b, cur protocol.Version
	var ea, eb error
	verifrt.Concurrent(
		func() { a, ea = c.Get(1) },
		func() { b, eb = c.Get(t) },
		func() { cur, _ = c.Current() },
	)
	verifrt.Reach("done")
	verifrt.Assert(ea == nil && a != nil && a.Version() == "1.0", "lookup by genesis time returns that version")
	verifrt.Assert(cur != nil && cur.Version() == "2.0", "the current version is the latest")
	if t == 2 {
		verifrt.Assert(eb == nil && b != nil && b.Version() == "2.0", "concurrent lookups return what sequential lookups return")
	}
}
