package nsprovider

import (
	"github.com/trustbloc/sidetree-go/pkg/api/protocol"
	verifrt "github.com/trustbloc/sidetree-go/pkg/internal/verifrt"
)

type stubCVP struct{ id string }

func (s *stubCVP) Current() (protocol.Version, error)      { return nil, nil }
func (s *stubCVP) Get(uint64) (protocol.Version, error)    { return nil, nil }

// Harness_C20_NamespaceProvider: concurrent registration and lookup of namespaces: no interleaving of three calls
// contains a data race and every access to the shared map happens under the provider's lock in the right mode.
func Harness_C20_NamespaceProvider() {
	p := New()
	p.Add("did:zero", &stubCVP{"0"})
	ns1 := "did:" + verifrt.AnyAtom("ns1")
	ns2 := "did:" + verifrt.AnyAtom("ns2")
	var got ClientVersionProvider
	var gotErr error
	calls := [][]func(){
		{func() { p.Add(ns1, &stubCVP{"1"}) }, func() { got, gotErr = p.ForNamespace(ns1) }, func() { p.Add(ns2, &stubCVP{"2"}) }},
		{func() { _, _ = p.ForNamespace("did:zero") }, func() { _, _ = p.ForNamespace(ns2) }, func() { p.Add(ns1, &stubCVP{"1"}) }},
	}[verifrt.Choose("mix", 2)]
	verifrt.Concurrent(calls...)
	verifrt.Reach("done")
	_, _ = got, gotErr
	// behaves as if performed one at a time: afterwards every registered namespace resolves
	v, err := p.ForNamespace("did:zero")
	verifrt.Assert(err == nil && v != nil, "a namespace registered before the concurrent calls is still resolvable")
	v1, err1 := p.ForNamespace(ns1)
	verifrt.Assert(err1 == nil && v1 != nil, "a namespace registered concurrently is resolvable afterwards")
}
