package doccomposer

import (
	"github.com/trustbloc/sidetree-go/pkg/document"
	verifrt "github.com/trustbloc/sidetree-go/pkg/internal/verifrt"
	"github.com/trustbloc/sidetree-go/pkg/patch"
)

// ids are one symbolic byte: every equality pattern among the few ids in play is covered.
func anyID(tag string) string { return verifrt.AnyStr(tag, 1) }

func distinct(ids []string) bool {
	ok := true
	for i := range ids {
		for j := i + 1; j < len(ids); j++ {
			ok = verifrt.And(ok, ids[i] != ids[j])
		}
	}
	return ok
}

func entry(id, payload string) map[string]interface{} {
	return map[string]interface{}{"id": id, "type": "t", "data": payload}
}

// c10Doc: a well-formed document with nk keys, ns services, na also-known-as URIs (unique ids).
func c10Doc(nk, ns, na int) (document.Document, []string, []string, []string) {
	doc := document.Document{}
	var kids, sids, akas []string
	if nk > 0 {
		var l []interface{}
		for i := 0; i < nk; i++ {
			id := anyID("doc-k" + string(rune('0'+i)))
			kids = append(kids, id)
			l = append(l, entry(id, "old-key"))
		}
		doc["publicKey"] = l
	}
	if ns > 0 {
		var l []interface{}
		for i := 0; i < ns; i++ {
			id := anyID("doc-s" + string(rune('0'+i)))
			sids = append(sids, id)
			l = append(l, entry(id, "old-svc"))
		}
		doc["service"] = l
	}
	if na > 0 {
		var l []interface{}
		for i := 0; i < na; i++ {
			u := anyID("doc-a" + string(rune('0'+i)))
			akas = append(akas, u)
			l = append(l, u)
		}
		doc["alsoKnownAs"] = l
	}
	verifrt.Assume(verifrt.And(distinct(kids), distinct(sids), distinct(akas)))
	doc["other"] = "o"
	return doc, kids, sids, akas
}

// reference state: ordered lists
type refState struct {
	keys, svcs []map[string]interface{}
	akas       []string
	other      map[string]interface{}
}

func refAdd(list []map[string]interface{}, add []map[string]interface{}) []map[string]interface{} {
	out := append([]map[string]interface{}{}, list...)
	for _, e := range add {
		found := false
		for i := range out {
			if out[i]["id"].(string) == e["id"].(string) {
				out[i] = e
				found = true
			}
		}
		if !found {
			out = append(out, e)
		}
	}
	return out
}

func refRemove(list []map[string]interface{}, ids []string) []map[string]interface{} {
	var out []map[string]interface{}
	for _, e := range list {
		drop := false
		for _, id := range ids {
			if e["id"].(string) == id {
				drop = true
			}
		}
		if !drop {
			out = append(out, e)
		}
	}
	return out
}

func toIface(list []map[string]interface{}) []interface{} {
	var out []interface{}
	for _, e := range list {
		out = append(out, e)
	}
	return out
}

func strsToIface(l []string) []interface{} {
	var out []interface{}
	for _, e := range l {
		out = append(out, e)
	}
	return out
}

// anyPatch builds one validated-shape patch and advances the reference state.
func anyPatch(tag string, st *refState) patch.Patch {
	n := 1 + verifrt.Choose(tag+"-n", 2)
	var ids []string
	for i := 0; i < n; i++ {
		ids = append(ids, anyID(tag+"-id"+string(rune('0'+i))))
	}
	verifrt.Assume(distinct(ids)) // what validation guarantees
	var ents []map[string]interface{}
	for _, id := range ids {
		ents = append(ents, entry(id, "new-"+tag))
	}
	switch verifrt.Choose(tag+"-action", 8) {
	case 0:
		st.keys = refAdd(st.keys, ents)
		return patch.Patch{patch.ActionKey: patch.AddPublicKeys, patch.PublicKeys: toIface(ents)}
	case 1:
		st.keys = refRemove(st.keys, ids)
		return patch.Patch{patch.ActionKey: patch.RemovePublicKeys, patch.IdsKey: strsToIface(ids)}
	case 2:
		st.svcs = refAdd(st.svcs, ents)
		return patch.Patch{patch.ActionKey: patch.AddServiceEndpoints, patch.ServicesKey: toIface(ents)}
	case 3:
		st.svcs = refRemove(st.svcs, ids)
		return patch.Patch{patch.ActionKey: patch.RemoveServiceEndpoints, patch.IdsKey: strsToIface(ids)}
	case 4:
		for _, u := range ids {
			present := false
			for _, e := range st.akas {
				if e == u {
					present = true
				}
			}
			if !present {
				st.akas = append(st.akas, u)
			}
		}
		return patch.Patch{patch.ActionKey: patch.AddAlsoKnownAs, patch.UrisKey: strsToIface(ids)}
	case 5:
		var out []string
		for _, e := range st.akas {
			drop := false
			for _, u := range ids {
				if e == u {
					drop = true
				}
			}
			if !drop {
				out = append(out, e)
			}
		}
		st.akas = out
		return patch.Patch{patch.ActionKey: patch.RemoveAlsoKnownAs, patch.UrisKey: strsToIface(ids)}
	case 6:
		st.keys = ents
		st.svcs = []map[string]interface{}{entry(ids[0], "replaced-svc")}
		st.akas = nil
		st.other = map[string]interface{}{}
		return patch.Patch{patch.ActionKey: patch.Replace, patch.DocumentKey: map[string]interface{}{
			"publicKeys": toIface(st.keys), "services": toIface(st.svcs)}}
	}
	// ietf-json-patch on another member (RFC 6902 add = set)
	st.other["extra"] = "x-" + tag
	return patch.Patch{patch.ActionKey: patch.JSONPatch, patch.PatchesKey: []interface{}{
		map[string]interface{}{"op": "add", "path": "/extra", "value": "x-" + tag}}}
}

func idsUnique(list []interface{}) bool {
	ok := true
	for i := range list {
		for j := i + 1; j < len(list); j++ {
			a := list[i].(map[string]interface{})["id"].(string)
			b := list[j].(map[string]interface{})["id"].(string)
			ok = verifrt.And(ok, a != b)
		}
	}
	return ok
}

func listOf(v interface{}) []interface{} {
	l, _ := v.([]interface{})
	return l
}

func c10Run(nk, ns, na, npatches int) {
	doc, _, _, _ := c10Doc(nk, ns, na)
	st := &refState{other: map[string]interface{}{"other": "o"}}
	for _, e := range listOf(doc["publicKey"]) {
		st.keys = append(st.keys, e.(map[string]interface{}))
	}
	for _, e := range listOf(doc["service"]) {
		st.svcs = append(st.svcs, e.(map[string]interface{}))
	}
	for _, e := range listOf(doc["alsoKnownAs"]) {
		st.akas = append(st.akas, e.(string))
	}
	var patches []patch.Patch
	for i := 0; i < npatches; i++ {
		patches = append(patches, anyPatch("p"+string(rune('0'+i)), st))
	}
	res, err := New().ApplyPatches(doc, patches)
	if err != nil {
		verifrt.Fail("a list of well-formed patches fails to apply")
		return
	}
	verifrt.Reach("applied")
	verifrt.Assert(verifrt.JSONEqual(listOf(res["publicKey"]), toIface(st.keys)), "public keys = left fold of add (insert-or-replace, order kept, new appended) / remove / replace")
	verifrt.Assert(verifrt.JSONEqual(listOf(res["service"]), toIface(st.svcs)), "services = left fold of add / remove / replace")
	verifrt.Assert(verifrt.JSONEqual(listOf(res["alsoKnownAs"]), strsToIface(st.akas)), "also-known-as = ordered set union / difference")
	for k, v := range st.other {
		verifrt.Assert(verifrt.JSONEqual(res[k], v), "other members follow ietf-json-patch / are dropped by replace")
	}
	for k := range res {
		_, expected := st.other[k]
		verifrt.Assert(expected || k == "publicKey" || k == "service" || k == "alsoKnownAs", "the result has no member the fold does not have (replace discards the whole document)")
	}
	verifrt.Assert(verifrt.And(idsUnique(listOf(res["publicKey"])), idsUnique(listOf(res["service"]))), "unique ids in => unique ids out")
}

// Harness_C10_OnePatch: every action on documents with 0..2 keys, 0..1 services, 0..2 also-known-as.
func Harness_C10_OnePatch() {
	c10Run(verifrt.Choose("nk", 3), verifrt.Choose("ns", 2), verifrt.Choose("na", 3), 1)
}

// Harness_C10_TwoPatches: every pair of actions in sequence (the fold).
func Harness_C10_TwoPatches() {
	c10Run(1+verifrt.Choose("nk", 2), 1, 1, 2)
}

// HarnessT_C10_ThreePatches: sequences of three patches on a fuller document.
func HarnessT_C10_ThreePatches() {
	c10Run(2, 1, 1, 3)
}

// Harness_C10_AlsoKnownAsOddEntries: a document reachable through a validated ietf-json-patch may hold entries in
// alsoKnownAs that are not strings; add / remove-also-known-as still act as ordered set union / difference on the
// URIs and never invent an entry (every entry of the result is a URI of the document or of the patch).
func Harness_C10_AlsoKnownAsOddEntries() {
	u1, u2, u3 := "https://aka.example/"+verifrt.AnyAtom("u1"), "https://aka.example/"+verifrt.AnyAtom("u2"), "https://aka.example/"+verifrt.AnyAtom("u3")
	verifrt.Assume(u1 != u2 && u1 != u3 && u2 != u3)
	odd := []interface{}{7.0, true, nil, map[string]interface{}{"x": "y"}}[verifrt.Choose("odd-entry", 4)]
	doc := document.Document{"alsoKnownAs": [][]interface{}{{u1, odd, u2}, {odd, u1}, {u1, u2, odd}}[verifrt.Choose("odd-position", 3)]}
	hasU2 := len(doc["alsoKnownAs"].([]interface{})) == 3
	var p patch.Patch
	var want []string
	if verifrt.Choose("action", 2) == 0 {
		p = patch.Patch{patch.ActionKey: patch.AddAlsoKnownAs, patch.UrisKey: []interface{}{u3, u1}}
		want = []string{u1}
		if hasU2 {
			want = append(want, u2)
		}
		want = append(want, u3)
	} else {
		p = patch.Patch{patch.ActionKey: patch.RemoveAlsoKnownAs, patch.UrisKey: []interface{}{u1, u3}}
		if hasU2 {
			want = []string{u2}
		}
	}
	res, err := New().ApplyPatches(doc, []patch.Patch{p})
	if err != nil {
		verifrt.Fail("a well-formed also-known-as patch fails to apply")
		return
	}
	verifrt.Reach("applied")
	got := listOf(res["alsoKnownAs"])
	var uris []string
	for _, e := range got {
		if s, ok := e.(string); ok {
			uris = append(uris, s)
			verifrt.Assert(s == u1 || s == u2 || s == u3, "no URI is invented: every entry of the result comes from the document or the patch")
		}
	}
	verifrt.Assert(verifrt.JSONEqual(strsToIface(uris), strsToIface(want)), "the URIs of the result are the ordered set union / difference")
}

// Harness_C10_AlsoKnownAsNearMisses: URIs are compared as the strings they are: a URI that differs from an entry by a
// trailing slash, by letter case or by a surrounding blank is another URI for add (both are kept) and for remove (a
// miss that is ignored).
func Harness_C10_AlsoKnownAsNearMisses() {
	u := "https://aka.example/" + verifrt.AnyAtom("u")
	near := []string{u + "/", "HTTPS://aka.example/" + verifrt.AnyAtom("u"), u + " ", u + "#"}[verifrt.Choose("near", 4)]
	var doc document.Document
	var p patch.Patch
	var want []string
	switch verifrt.Choose("case", 4) {
	case 0: // both in the document, one removed
		doc = document.Document{"alsoKnownAs": []interface{}{u, near}}
		p = patch.Patch{patch.ActionKey: patch.RemoveAlsoKnownAs, patch.UrisKey: []interface{}{near}}
		want = []string{u}
	case 1:
		doc = document.Document{"alsoKnownAs": []interface{}{u, near}}
		p = patch.Patch{patch.ActionKey: patch.RemoveAlsoKnownAs, patch.UrisKey: []interface{}{u}}
		want = []string{near}
	case 2: // only one in the document: removing the other is a miss
		doc = document.Document{"alsoKnownAs": []interface{}{u}}
		p = patch.Patch{patch.ActionKey: patch.RemoveAlsoKnownAs, patch.UrisKey: []interface{}{near}}
		want = []string{u}
	default: // adding the other keeps both
		doc = document.Document{"alsoKnownAs": []interface{}{u}}
		p = patch.Patch{patch.ActionKey: patch.AddAlsoKnownAs, patch.UrisKey: []interface{}{near, u}}
		want = []string{u, near}
	}
	res, err := New().ApplyPatches(doc, []patch.Patch{p})
	if err != nil {
		verifrt.Fail("a well-formed also-known-as patch fails to apply")
		return
	}
	verifrt.Reach("applied")
	verifrt.Assert(verifrt.JSONEqual(listOf(res["alsoKnownAs"]), strsToIface(want)), "also-known-as URIs are compared exactly")
}
