package doccomposer

import (
	"github.com/trustbloc/sidetree-go/pkg/document"
	verifrt "github.com/trustbloc/sidetree-go/pkg/internal/verifrt"
	"github.com/trustbloc/sidetree-go/pkg/patch"
)

// failingPatch: well-formed for the composer's dispatcher but not applicable.
func failingPatch() patch.Patch {
	switch verifrt.Choose("failing-kind", 3) {
	case 0: // RFC 6902 test that does not hold
		return patch.Patch{patch.ActionKey: patch.JSONPatch, patch.PatchesKey: []interface{}{
			map[string]interface{}{"op": "test", "path": "/other", "value": "not-the-value"}}}
	case 1: // remove of a missing member
		return patch.Patch{patch.ActionKey: patch.JSONPatch, patch.PatchesKey: []interface{}{
			map[string]interface{}{"op": "remove", "path": "/missing"}}}
	}
	return patch.Patch{patch.ActionKey: "frobnicate"}
}

// Harness_C12_ComposerInputs: ApplyPatches never writes to the document it was given (at any depth) nor to
// the patch values, whether it succeeds or fails at the k-th patch; a failure yields no partial document.
func Harness_C12_ComposerInputs() {
	doc, _, _, _ := c10Doc(1+verifrt.Choose("nk", 2), 1, 1)
	if verifrt.Choose("empty-doc", 2) == 1 {
		doc = document.Document{} // empty but non-nil: the state a degraded create/recover or a deactivate leaves behind
	}
	st := &refState{other: map[string]interface{}{}}
	var patches []patch.Patch
	n := 1 + verifrt.Choose("npatches", 2)
	failAt := verifrt.Choose("fail-at", n+1) // n = no failing patch
	for i := 0; i < n; i++ {
		if i == failAt {
			patches = append(patches, failingPatch())
		} else {
			patches = append(patches, anyPatch("p"+string(rune('0'+i)), st))
		}
	}
	verifrt.Freeze(doc, patches)
	res, err := New().ApplyPatches(doc, patches)
	if err != nil {
		verifrt.Reach("failed")
		verifrt.Assert(res == nil, "a failing patch list yields an error and no partial document")
	} else {
		verifrt.Reach("applied")
		verifrt.Assert(failAt == n, "a patch list containing an inapplicable patch does not succeed")
	}
}

// Harness_C12_PatchValuesWithLists: patch values that contain lists a tidy-up might rewrite (a service endpoint list
// with a repeated URI, purposes with a repeated and unsorted entry, also-known-as URIs out of order) are left exactly
// as given, in any pair of such patches.
func Harness_C12_PatchValuesWithLists() {
	a, b := "https://ep.example/"+verifrt.AnyAtom("a"), "https://ep.example/"+verifrt.AnyAtom("b")
	verifrt.Assume(a != b)
	mk := func(tag string) patch.Patch {
		switch verifrt.Choose(tag, 4) {
		case 0:
			return patch.Patch{patch.ActionKey: patch.AddServiceEndpoints, patch.ServicesKey: []interface{}{
				map[string]interface{}{"id": "svc1", "type": "t", "serviceEndpoint": []interface{}{a, a, b}, "routingKeys": []interface{}{"z", "y", "z"}}}}
		case 1:
			return patch.Patch{patch.ActionKey: patch.AddPublicKeys, patch.PublicKeys: []interface{}{
				map[string]interface{}{"id": "key1", "type": "JsonWebKey2020", "purposes": []interface{}{"keyAgreement", "authentication", "keyAgreement"},
					"publicKeyJwk": map[string]interface{}{"kty": "EC", "crv": "P-256", "x": "x", "y": "y"}}}}
		case 2:
			return patch.Patch{patch.ActionKey: patch.AddAlsoKnownAs, patch.UrisKey: []interface{}{b, a, b}}
		}
		return patch.Patch{patch.ActionKey: patch.Replace, patch.DocumentKey: map[string]interface{}{
			"publicKeys": []interface{}{}, "services": []interface{}{map[string]interface{}{"id": "svc2", "type": "t", "serviceEndpoint": []interface{}{b, b}}}}}
	}
	doc, _, _, _ := c10Doc(1, 1, 1)
	patches := []patch.Patch{mk("first"), mk("second")}
	verifrt.Freeze(doc, patches)
	_, _ = New().ApplyPatches(doc, patches)
	verifrt.Reach("applied")
}
