package doccomposer

import (
	verifrt "github.com/trustbloc/sidetree-go/pkg/internal/verifrt"
	"github.com/trustbloc/sidetree-go/pkg/patch"
	"github.com/trustbloc/sidetree-go/pkg/versions/1_0/operationparser/patchvalidator"
)

// c19Apply: validation then application must answer with a value or an error - never a panic,
// stack exhaustion or non-termination (the engine reports those as violations by themselves).
func c19Apply(ops []interface{}) {
	doc := c11Doc()
	doc["a"] = []interface{}{"e0", "e1"}
	p := patch.Patch{patch.ActionKey: patch.JSONPatch, patch.PatchesKey: ops}
	if patchvalidator.Validate(p) != nil {
		verifrt.Reach("refused-by-validation")
		return
	}
	_, err := New().ApplyPatches(doc, []patch.Patch{p})
	if err != nil {
		verifrt.Reach("error")
		return
	}
	verifrt.Reach("applied")
}

// Harness_C19_JSONPatch: one RFC 6902 operation with arbitrary kind, members present or absent, pointers of
// depth 0..2 with symbolic tokens (including array indices, "-", negative numbers).
func Harness_C19_JSONPatch() { c19JSONPatch([]int{1, 9}, []int{1}) }

// HarnessT_C19_JSONPatchWide: longer tokens (two-character indices such as -1 and 10, every member-name length).
func HarnessT_C19_JSONPatchWide() { c19JSONPatch([]int{0, 1, 2, 7, 9, 11}, []int{1, 2}) }

func c19JSONPatch(first, next []int) {
	firstLens, nextLens = first, next
	withLead = false
	op := anyOp("op0")
	if verifrt.Choose("drop-value", 2) == 1 {
		delete(op, "value")
	}
	c19Apply([]interface{}{op})
}

// Harness_C19_JSONPatchMembers: members that are present but JSON null or of the wrong JSON type, for every
// operation kind (pointers fixed).
func Harness_C19_JSONPatchMembers() {
	kinds := []string{"add", "remove", "replace", "test", "move", "copy"}
	op := map[string]interface{}{"op": kinds[verifrt.Choose("kind", len(kinds))], "path": "/x/y", "from": "/alsoKnownAs", "value": "v"}
	odd := []interface{}{nil, 7.0, true, []interface{}{}, map[string]interface{}{}}[verifrt.Choose("odd-value", 5)]
	member := []string{"path", "from", "op", "value"}[verifrt.Choose("odd-member", 4)]
	if verifrt.Choose("odd-or-absent", 2) == 0 {
		op[member] = odd
	} else {
		delete(op, member)
	}
	var entry interface{} = op
	if verifrt.Choose("entry-kind", 4) == 1 {
		entry = odd // the operation itself is not an object
	}
	c19Apply([]interface{}{entry})
}

// HarnessT_C19_JSONPatchHugeIndex: array index tokens denoting huge numbers ("huge values"); one symbolic
// leading digit, the magnitude chosen from fixed sizes (64-bit multiplication chains over ten symbolic digits do
// not finish in the solver).
func HarnessT_C19_JSONPatchHugeIndex() {
	d := verifrt.AnyStr("lead-digit", 1)
	verifrt.Assume(d[0] >= '1' && d[0] <= '9')
	idx := d + []string{"0000000000", "00000000000000000000"}[verifrt.Choose("magnitude", 2)]
	kind := []string{"add", "replace", "move", "copy", "remove", "test"}[verifrt.Choose("kind", 6)]
	op := map[string]interface{}{"op": kind, "path": "/a/" + idx, "from": "/x", "value": "v"}
	c19Apply([]interface{}{op})
}

// Harness_C19_JSONPatchIntoOwnSource: move/copy of an array element (an object) to a location below an element of
// the same array (or of another array: the control that applies), both index tokens arbitrary strings of 1..2 bytes ("0", "00", "+0", "-1", "-2", "1", ...): "pointers
// into their own source" in every spelling the patch library resolves to the same element.
func Harness_C19_JSONPatchIntoOwnSource() {
	doc := c11Doc()
	doc["b"] = []interface{}{map[string]interface{}{"k": "v"}, map[string]interface{}{"k": "w"}}
	doc["c"] = []interface{}{map[string]interface{}{"k": "x"}}
	target := []string{"/b/", "/c/"}[verifrt.Choose("target-array", 2)] // the same array, or another one (no aliasing)
	t0 := verifrt.AnyStr("from-index", 1+verifrt.Choose("from-index-len", 2))
	t1 := verifrt.AnyStr("path-index", 1+verifrt.Choose("path-index-len", 2))
	for i := 0; i < len(t0); i++ {
		verifrt.Assume(t0[i] != '/' && t0[i] != '~' && t0[i] != '"' && t0[i] != '\\' && t0[i] >= 0x20 && t0[i] < 0x7f)
	}
	for i := 0; i < len(t1); i++ {
		verifrt.Assume(t1[i] != '/' && t1[i] != '~' && t1[i] != '"' && t1[i] != '\\' && t1[i] >= 0x20 && t1[i] < 0x7f)
	}
	kind := []string{"copy", "move"}[verifrt.Choose("kind", 2)]
	op := map[string]interface{}{"op": kind, "from": "/b/" + t0, "path": target + t1 + "/y"}
	p := patch.Patch{patch.ActionKey: patch.JSONPatch, patch.PatchesKey: []interface{}{op}}
	if patchvalidator.Validate(p) != nil {
		verifrt.Reach("refused-by-validation")
		return
	}
	_, err := New().ApplyPatches(doc, []patch.Patch{p})
	if err != nil {
		verifrt.Reach("error")
		return
	}
	verifrt.Reach("applied")
}

// Harness_C19_JSONPatchIntoOwnSourceEscaped: the same for object members whose names need RFC 6901 escapes: the
// document has members "a~", "a/" and "ab"; from and path name a member by "a" followed by 1..2 bytes out of
// {~, 0, 1, b} ("a~0" and the malformed "a~" are the same member for the patch library).
func Harness_C19_JSONPatchIntoOwnSourceEscaped() {
	doc := c11Doc()
	doc["o"] = map[string]interface{}{"a~": map[string]interface{}{"k": "v"}, "a/": map[string]interface{}{"k": "w"}, "ab": map[string]interface{}{"k": "x"}}
	tok := func(tag string) string {
		s := verifrt.AnyStr(tag, 1+verifrt.Choose(tag+"-len", 2))
		for i := 0; i < len(s); i++ {
			verifrt.Assume(s[i] == '~' || s[i] == '0' || s[i] == '1' || s[i] == 'b')
		}
		return "a" + s
	}
	t0, t1 := tok("from-member"), tok("path-member")
	kind := []string{"copy", "move"}[verifrt.Choose("kind", 2)]
	op := map[string]interface{}{"op": kind, "from": "/o/" + t0, "path": "/o/" + t1 + "/y"}
	p := patch.Patch{patch.ActionKey: patch.JSONPatch, patch.PatchesKey: []interface{}{op}}
	if patchvalidator.Validate(p) != nil {
		verifrt.Reach("refused-by-validation")
		return
	}
	_, err := New().ApplyPatches(doc, []patch.Patch{p})
	if err != nil {
		verifrt.Reach("error")
		return
	}
	verifrt.Reach("applied")
}

// Harness_C19_JSONPatchTwoSteps: two move/copy operations over three object members and the root member names
// "x", "o": the second operation's source may be a value the first one has just placed elsewhere (the patch library
// does not copy values, so both locations then hold the same node).
func Harness_C19_JSONPatchTwoSteps() {
	doc := c11Doc()
	doc["o"] = map[string]interface{}{"a": map[string]interface{}{"k": "v"}, "b": map[string]interface{}{"k": "w"}}
	locs := []string{"/o/a", "/o/b", "/o/c", "/x", "/o/a/y", "/o/c/y", "/x/y", "/o"}
	mk := func(tag string) map[string]interface{} {
		return map[string]interface{}{"op": []string{"copy", "move"}[verifrt.Choose(tag+"-kind", 2)],
			"from": locs[verifrt.Choose(tag+"-from", len(locs))], "path": locs[verifrt.Choose(tag+"-path", len(locs))]}
	}
	p := patch.Patch{patch.ActionKey: patch.JSONPatch, patch.PatchesKey: []interface{}{mk("op0"), mk("op1")}}
	if patchvalidator.Validate(p) != nil {
		verifrt.Reach("refused-by-validation")
		return
	}
	_, err := New().ApplyPatches(doc, []patch.Patch{p})
	if err != nil {
		verifrt.Reach("error")
		return
	}
	verifrt.Reach("applied")
}

// Harness_C19_JSONPatchNegativeIndex: replace / test / move / copy / remove / add on array positions written with a
// sign ("-1", "-2", "-3", "+0", "+5") or out of range: answered with a value or an error.
func Harness_C19_JSONPatchNegativeIndex() {
	idx := []string{"-1", "-2", "-3", "+0", "+5", "2", "7"}[verifrt.Choose("index", 7)]
	kind := []string{"replace", "test", "move", "copy", "remove", "add"}[verifrt.Choose("kind", 6)]
	op := map[string]interface{}{"op": kind, "path": "/a/" + idx, "from": "/a/" + idx, "value": "v"}
	switch verifrt.Choose("pointer-side", 3) {
	case 0:
		op["from"] = "/name"
	case 1:
		op["path"] = "/fresh"
	}
	c19Apply([]interface{}{op})
}

// Harness_C19_JSONPatchEmptyTokens: move/copy with pointers that contain empty reference tokens ("/o/a/" is the
// member with the empty name inside /o/a, not /o/a itself): copying a value below itself through such a pointer must
// be refused or answered with an error.
func Harness_C19_JSONPatchEmptyTokens() {
	doc := c11Doc()
	doc["o"] = map[string]interface{}{"a": map[string]interface{}{"k": "v", "": map[string]interface{}{"k": "w"}}, "": map[string]interface{}{"k": "x"}}
	from := []string{"/o/a", "/o", "/o/a/", "/o/"}[verifrt.Choose("from", 4)]
	path := []string{"/o/a/", "/o/a//", "/o//a", "/o/a//y", "/o/", "/o//", "/o/a/k/"}[verifrt.Choose("path", 7)]
	kind := []string{"copy", "move"}[verifrt.Choose("kind", 2)]
	p := patch.Patch{patch.ActionKey: patch.JSONPatch, patch.PatchesKey: []interface{}{map[string]interface{}{"op": kind, "from": from, "path": path}}}
	if patchvalidator.Validate(p) != nil {
		verifrt.Reach("refused-by-validation")
		return
	}
	_, _ = New().ApplyPatches(doc, []patch.Patch{p})
	verifrt.Reach("answered")
}
