package doccomposer

import (
	"encoding/json"

	"github.com/trustbloc/sidetree-go/pkg/document"
	verifrt "github.com/trustbloc/sidetree-go/pkg/internal/verifrt"
	"github.com/trustbloc/sidetree-go/pkg/patch"
	"github.com/trustbloc/sidetree-go/pkg/versions/1_0/operationparser/patchvalidator"
)

func c14Key(tag string) map[string]interface{} {
	return map[string]interface{}{"id": verifrt.AnyAtom(tag + "-id"), "type": "JsonWebKey2020", "purposes": []interface{}{"authentication"},
		"publicKeyJwk": map[string]interface{}{"kty": "EC", "crv": "P-256", "x": verifrt.AnyAtom(tag + "-x"), "y": verifrt.AnyAtom(tag + "-y")}}
}

func c14Service(tag string) map[string]interface{} {
	ep := "https://example.com/" + verifrt.AnyAtom(tag+"-ep")
	if verifrt.Choose(tag+"-percent", 2) == 1 {
		ep = "https://example.com/my%20hub/" + verifrt.AnyAtom(tag+"-ep") // percent-escaped character in the URI
	}
	svc := map[string]interface{}{"id": verifrt.AnyAtom(tag + "-id"), "type": "svc", "serviceEndpoint": ep}
	switch verifrt.Choose(tag+"-further-members", 3) { // services may carry further members (DIDComm style)
	case 1:
		svc["priority"] = 0
		svc["routingKeys"] = []interface{}{"did:key:" + verifrt.AnyAtom(tag+"-routing")}
	case 2:
		svc["recipientKeys"] = []interface{}{"did:key:" + verifrt.AnyAtom(tag+"-recipient")}
		svc["accept"] = []interface{}{"didcomm/v2"}
		svc["properties"] = map[string]interface{}{"note": nil}
	}
	return svc
}

func mustJSON(v interface{}) string {
	b, err := json.Marshal(v)
	if err != nil {
		verifrt.Fail("json.Marshal failed")
		verifrt.Assume(false)
	}
	return string(b)
}

// Harness_C14_DocumentRoundTrip: document -> patches -> apply to the empty document reproduces the document; every
// produced patch passes validation.
func Harness_C14_DocumentRoundTrip() {
	doc := map[string]interface{}{}
	nk := verifrt.Choose("keys", 3)
	if nk > 0 {
		var l []interface{}
		for i := 0; i < nk; i++ {
			l = append(l, c14Key("k"+string(rune('0'+i))))
		}
		if nk == 2 {
			verifrt.Assume(l[0].(map[string]interface{})["id"].(string) != l[1].(map[string]interface{})["id"].(string))
		}
		doc["publicKey"] = l
	}
	if verifrt.Choose("service", 2) == 1 {
		doc["service"] = []interface{}{c14Service("s0")}
	}
	na := verifrt.Choose("aka", 3)
	if na > 0 {
		var l []interface{}
		for i := 0; i < na; i++ {
			if verifrt.Choose("aka-spelling"+string(rune('0'+i)), 2) == 1 {
				// valid URIs that url.URL.String() would print differently (upper-case scheme, empty fragment)
				l = append(l, []string{"HTTPS://aka.example/A", "urn:Example:a#"}[i%2])
				continue
			}
			l = append(l, "https://aka.example/"+verifrt.AnyAtom("aka"+string(rune('0'+i))))
		}
		if na == 2 {
			verifrt.Assume(l[0].(string) != l[1].(string))
		}
		doc["alsoKnownAs"] = l
	}
	nm := verifrt.Choose("other-members", 3)
	if nm > 0 {
		doc["name"] = verifrt.AnyAtom("name")
	}
	if nm > 1 {
		doc["extra"] = map[string]interface{}{"nested": []interface{}{verifrt.AnyAtom("nested"), true, nil}}
		switch verifrt.Choose("odd-member-value", 7) { // further members are arbitrary JSON: null, false, empty containers, short values
		case 4:
			doc["blank"] = ""
		case 5:
			doc["obj"] = map[string]interface{}{}
		case 6:
			doc["count"] = 7
		case 1:
			doc["note"] = nil
		case 2:
			doc["flag"] = false
		case 3:
			doc["empty"] = []interface{}{}
		}
	}
	verifrt.Assume(len(doc) > 0)
	withID := verifrt.Choose("with-id", 2) == 1
	if withID {
		doc["id"] = "did:example:" + verifrt.AnyAtom("doc-id")
		if verifrt.Choose("id-kind", 2) == 1 {
			doc["id"] = 7.0 // an id member of another JSON type is an id all the same
		}
	}
	patches, err := patch.PatchesFromDocument(mustJSON(doc))
	if withID {
		verifrt.Reach("id-refused")
		verifrt.Assert(err != nil, "documents carrying an id are refused")
		return
	}
	if err != nil {
		verifrt.Fail("a well-formed document without id cannot be converted into patches")
		return
	}
	verifrt.Reach("converted")
	for _, p := range patches {
		verifrt.Assert(patchvalidator.Validate(p) == nil, "every patch produced from a valid document passes validation")
	}
	res, err := New().ApplyPatches(document.Document{}, patches)
	verifrt.Assert(err == nil && verifrt.JSONEqual(res, doc), "applying the patches to the empty document reproduces the document")
}

// Harness_C14_ConstructorsAndBytes: patches from the eight constructors validate, survive Bytes/FromBytes, and their
// accessors agree with their content; bytes lacking an action or the action's value are not a patch.
func Harness_C14_ConstructorsAndBytes() {
	var p patch.Patch
	var err error
	var wantAction patch.Action
	var wantValue interface{}
	k, s := c14Key("k"), c14Service("s")
	id1, id2 := verifrt.AnyAtom("id1"), verifrt.AnyAtom("id2")
	u1 := "https://aka.example/" + verifrt.AnyAtom("u1")
	switch verifrt.Choose("constructor", 8) {
	case 0:
		p, err = patch.NewAddPublicKeysPatch(mustJSON([]interface{}{k}))
		wantAction, wantValue = patch.AddPublicKeys, []interface{}{k}
	case 1:
		verifrt.Assume(id1 != id2)
		p, err = patch.NewRemovePublicKeysPatch(mustJSON([]interface{}{id1, id2}))
		wantAction, wantValue = patch.RemovePublicKeys, []interface{}{id1, id2}
	case 2:
		p, err = patch.NewAddServiceEndpointsPatch(mustJSON([]interface{}{s}))
		wantAction, wantValue = patch.AddServiceEndpoints, []interface{}{s}
	case 3:
		p, err = patch.NewRemoveServiceEndpointsPatch(mustJSON([]interface{}{id1}))
		wantAction, wantValue = patch.RemoveServiceEndpoints, []interface{}{id1}
	case 4:
		p, err = patch.NewAddAlsoKnownAs(mustJSON([]interface{}{u1}))
		wantAction, wantValue = patch.AddAlsoKnownAs, []interface{}{u1}
	case 5:
		p, err = patch.NewRemoveAlsoKnownAs(mustJSON([]interface{}{u1}))
		wantAction, wantValue = patch.RemoveAlsoKnownAs, []interface{}{u1}
	case 6:
		rd := map[string]interface{}{"publicKeys": []interface{}{k}, "services": []interface{}{s}}
		p, err = patch.NewReplacePatch(mustJSON(rd))
		wantAction, wantValue = patch.Replace, rd
	case 7:
		var val interface{} = verifrt.AnyAtom("v")
		if verifrt.Choose("json-patch-value", 3) == 1 {
			val = nil
		}
		ops := []interface{}{map[string]interface{}{"op": "add", "path": "/name", "value": val}}
		// every operation kind on ordinary members, incl. moves and copies between positions of one array and onto
		// the same location (from is not an ancestor of path there)
		switch verifrt.Choose("json-patch-kind", 7) {
		case 1:
			ops = []interface{}{map[string]interface{}{"op": "move", "from": "/order/0", "path": "/order/2"}}
		case 2:
			ops = []interface{}{map[string]interface{}{"op": "copy", "from": "/order/1", "path": "/order/0"}}
		case 3:
			ops = []interface{}{map[string]interface{}{"op": "move", "from": "/name", "path": "/name"}}
		case 4:
			ops = []interface{}{map[string]interface{}{"op": "copy", "from": "/a/b", "path": "/c/d"}}
		case 5:
			ops = []interface{}{map[string]interface{}{"op": "remove", "path": "/order/0"}, map[string]interface{}{"op": "test", "path": "/name", "value": val}}
		case 6:
			ops = []interface{}{map[string]interface{}{"op": "replace", "path": "/name", "value": val}}
		}
		p, err = patch.NewJSONPatch(mustJSON(ops))
		wantAction, wantValue = patch.JSONPatch, ops
	}
	if err != nil {
		verifrt.Fail("a patch constructor refuses valid input")
		return
	}
	verifrt.Reach("constructed")
	verifrt.Assert(patchvalidator.Validate(p) == nil, "every patch produced by the constructors from valid input passes validation")
	a, errA := p.GetAction()
	v, errV := p.GetValue()
	verifrt.Assert(errA == nil && errV == nil && a == wantAction && verifrt.JSONEqual(v, wantValue), "action and value accessors agree with the content")
	b, errB := p.Bytes()
	if errB != nil {
		verifrt.Fail("serializing a patch fails")
		return
	}
	back, errF := patch.FromBytes(b)
	verifrt.Assert(errF == nil && verifrt.JSONEqual(back, p), "serializing a patch and parsing it back gives an equal patch")
	if errF == nil {
		a2, _ := back.GetAction()
		v2, _ := back.GetValue()
		verifrt.Assert(a2 == wantAction && verifrt.JSONEqual(v2, wantValue), "accessors of the parsed patch agree as well")
	}
	// malformed encodings
	m := map[string]interface{}{}
	for key, val := range p {
		m[string(key)] = val
	}
	switch verifrt.Choose("malformed", 4) {
	case 3: // the value carried under another member name (empty, former spellings, another action's member)
		stray := []string{"", "value", "public_keys", "service_endpoints", "publicKey", "id", "Patches", "document "}[verifrt.Choose("stray-name", 8)]
		for key, val := range m {
			if key != "action" {
				delete(m, key)
				m[stray] = val
			}
		}
	case 0:
		delete(m, "action")
	case 1:
		m["action"] = "frobnicate"
	case 2:
		for key := range m {
			if key != "action" {
				delete(m, key)
			}
		}
	}
	_, errM := patch.FromBytes([]byte(mustJSON(m)))
	verifrt.Assert(errM != nil, "bytes that lack a supported action or that action's value member are not accepted as a patch")
}
