package doccomposer

import (
	"github.com/trustbloc/sidetree-go/pkg/document"
	verifrt "github.com/trustbloc/sidetree-go/pkg/internal/verifrt"
	"github.com/trustbloc/sidetree-go/pkg/patch"
	"github.com/trustbloc/sidetree-go/pkg/versions/1_0/operationparser/patchvalidator"
)

func c11Doc() document.Document {
	return document.Document{
		"publicKey": []interface{}{
			map[string]interface{}{"id": "k1", "type": "JsonWebKey2020", "publicKeyJwk": map[string]interface{}{"kty": "EC", "crv": "P-256", "x": "xx", "y": "yy"}},
			map[string]interface{}{"id": "k2", "type": "JsonWebKey2020", "publicKeyJwk": map[string]interface{}{"kty": "EC", "crv": "P-256", "x": "x2", "y": "y2"}},
		},
		"service":     []interface{}{map[string]interface{}{"id": "s1", "type": "t", "serviceEndpoint": "https://example.com/"}},
		"alsoKnownAs": []interface{}{"https://aka.example/1"},
		"x":           map[string]interface{}{"y": "v"},
	}
}

// anyToken: a reference token of symbolic bytes (no '/'); the lengths cover every member name of the
// document, the protected names and their prefix siblings, escapes (~0, ~1), indices and "-".
func anyToken(tag string, lens []int) string {
	c := verifrt.Choose(tag+"-len", len(lens)+len(escapedTokens))
	if c >= len(lens) {
		return escapedTokens[c-len(lens)]
	}
	t := verifrt.AnyStr(tag, lens[c])
	for i := 0; i < len(t); i++ {
		verifrt.Assume(t[i] != '/' && t[i] != '~') // escapes are covered by escapedTokens
	}
	return t
}

// tokens using the RFC 6901 escapes ~0 (for ~) and ~1 (for /)
var escapedTokens = []string{"~0", "~1", "~01", "service~0", "~1publicKey"}

// quick bounds: the protected names' lengths, one-byte names/indices; thorough: every member-name length.
var withLead = true
var firstLens = []int{1, 7, 9}
var nextLens = []int{1}

// anyPointer: root, or 1..2 tokens.
func anyPointer(tag string) string {
	// RFC 6901 pointers are "" or start with "/"; the library ignores whatever precedes the first "/", so a
	// junk byte in front is part of the domain
	lead := ""
	if withLead && verifrt.Choose(tag+"-lead", 2) == 1 {
		lead = verifrt.AnyStr(tag+"-lead-byte", 1)
		verifrt.Assume(lead[0] != '/' && lead[0] != '~')
	}
	switch verifrt.Choose(tag+"-depth", 3) {
	case 0:
		return lead
	case 1:
		return lead + "/" + anyToken(tag+"-t0", firstLens)
	}
	return lead + "/" + anyToken(tag+"-t0", firstLens) + "/" + anyToken(tag+"-t1", nextLens)
}

// anyOp: one operation; members each kind does not read are left out (they cannot influence the outcome).
func anyOp(tag string) map[string]interface{} {
	kinds := []string{"add", "remove", "replace", "test", "move", "copy", "frobnicate"}
	k := verifrt.Choose(tag+"-kind", len(kinds))
	op := map[string]interface{}{"op": kinds[k]}
	if verifrt.Choose(tag+"-has-path", 2) != 0 {
		op["path"] = anyPointer(tag + "-path")
	}
	if k == 4 || k == 5 {
		op["from"] = anyPointer(tag + "-from")
	}
	if k == 0 || k == 2 || k == 3 {
		if verifrt.Choose(tag+"-has-value", 2) != 0 {
			op["value"] = "new"
		}
	}
	return op
}

func c11Check(ops []interface{}) {
	verifrt.IgnorePanics() // panics inside the JSON-patch library are C19's subject (same generator)
	doc := c11Doc()
	p := patch.Patch{patch.ActionKey: patch.JSONPatch, patch.PatchesKey: ops}
	if patchvalidator.Validate(p) != nil {
		verifrt.Reach("refused-by-validation")
		return
	}
	res, err := New().ApplyPatches(doc, []patch.Patch{p})
	if err != nil {
		verifrt.Reach("validated-but-not-applicable")
		return
	}
	verifrt.Reach("applied")
	verifrt.Assert(verifrt.JSONEqual(res["publicKey"], doc["publicKey"]), "a validated ietf-json-patch leaves the public keys unchanged")
	verifrt.Assert(verifrt.JSONEqual(res["service"], doc["service"]), "a validated ietf-json-patch leaves the services unchanged")
}

// Harness_C11_OneOp: one RFC 6902 operation of any kind with arbitrary path/from pointers.
func Harness_C11_OneOp() {
	firstLens, nextLens, withLead = []int{1, 7, 9}, []int{1}, true
	c11Check([]interface{}{anyOp("op0")})
}

// Harness_C11_TwoOps: a harmless first operation followed by an arbitrary one (every operation of a list is
// subject to validation, not just the first).
func Harness_C11_TwoOps() {
	firstLens, nextLens, withLead = []int{7, 9}, []int{1}, true
	first := map[string]interface{}{"op": "add", "path": "/harmless", "value": "v"}
	c11Check([]interface{}{first, anyOp("op1")})
}

// HarnessT_C11_OneOpWide: token lengths 0,1,2,6,7,9,10,11 (all member names, prefix siblings, escapes, indices).
func HarnessT_C11_OneOpWide() {
	firstLens, nextLens, withLead = []int{0, 1, 2, 6, 7, 9, 10, 11}, []int{1, 2}, true
	c11Check([]interface{}{anyOp("op0")})
}

// Harness_C11_EscapedLead: escape sequences in front of the first '/' of a pointer that names a protected member
// ("~1/service": the text in front of the first '/' is ignored by the patch library, and "~1" would decode to '/'),
// on the path or the from side of every operation kind.
func Harness_C11_EscapedLead() {
	verifrt.IgnorePanics()
	lead := []string{"~1", "~0", "~1~0", "~01", "~1x"}[verifrt.Choose("lead", 5)]
	target := []string{"/service", "/publicKey", "/service/0", "/publicKey/0/type"}[verifrt.Choose("target", 4)]
	kinds := []string{"add", "remove", "replace", "test", "move", "copy"}
	k := verifrt.Choose("kind", len(kinds))
	op := map[string]interface{}{"op": kinds[k], "path": lead + target, "value": "new"}
	if k >= 4 {
		if verifrt.Choose("side", 2) == 0 {
			op["from"] = "/name"
		} else {
			op["from"], op["path"] = lead+target, "/fresh"
		}
	}
	doc := c11Doc()
	p := patch.Patch{patch.ActionKey: patch.JSONPatch, patch.PatchesKey: []interface{}{op}}
	if patchvalidator.Validate(p) != nil {
		verifrt.Reach("refused-by-validation")
		return
	}
	res, err := New().ApplyPatches(doc, []patch.Patch{p})
	if err != nil {
		return
	}
	verifrt.Assert(verifrt.JSONEqual(res["publicKey"], doc["publicKey"]), "a validated ietf-json-patch leaves the public keys unchanged")
	verifrt.Assert(verifrt.JSONEqual(res["service"], doc["service"]), "a validated ietf-json-patch leaves the services unchanged")
}

// Harness_C11_AfterFirstOp: an operation of any kind that applies (a succeeding test, add, replace, copy, move,
// remove of an ordinary member) followed by an operation of any kind that names a protected member on its path or
// from side: every operation of the list is validated, whatever precedes it.
func Harness_C11_AfterFirstOp() {
	verifrt.IgnorePanics()
	first := []map[string]interface{}{
		{"op": "add", "path": "/harmless", "value": "v"},
		{"op": "test", "path": "/x/y", "value": "v"},
		{"op": "replace", "path": "/x/y", "value": "w"},
		{"op": "copy", "from": "/x/y", "path": "/z"},
		{"op": "move", "from": "/x/y", "path": "/z"},
		{"op": "remove", "path": "/x/y"},
	}[verifrt.Choose("first-op", 6)]
	target := []string{"/service", "/publicKey", "/service/0", "/publicKey/0/type", "/service/0/serviceEndpoint"}[verifrt.Choose("target", 5)]
	kinds := []string{"add", "remove", "replace", "test", "move", "copy"}
	k := verifrt.Choose("kind", len(kinds))
	second := map[string]interface{}{"op": kinds[k], "path": target, "value": "new"}
	if k >= 4 {
		if verifrt.Choose("side", 2) == 0 {
			second["from"] = "/alsoKnownAs"
		} else {
			second["from"], second["path"] = target, "/fresh"
		}
	}
	doc := c11Doc()
	p := patch.Patch{patch.ActionKey: patch.JSONPatch, patch.PatchesKey: []interface{}{first, second}}
	if patchvalidator.Validate(p) != nil {
		verifrt.Reach("refused-by-validation")
		return
	}
	res, err := New().ApplyPatches(doc, []patch.Patch{p})
	if err != nil {
		return
	}
	verifrt.Assert(verifrt.JSONEqual(res["publicKey"], doc["publicKey"]), "a validated ietf-json-patch leaves the public keys unchanged")
	verifrt.Assert(verifrt.JSONEqual(res["service"], doc["service"]), "a validated ietf-json-patch leaves the services unchanged")
}
