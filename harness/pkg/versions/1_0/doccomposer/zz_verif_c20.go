package doccomposer

import (
	"github.com/trustbloc/sidetree-go/pkg/document"
	verifrt "github.com/trustbloc/sidetree-go/pkg/internal/verifrt"
	"github.com/trustbloc/sidetree-go/pkg/patch"
)

// Harness_C20_SharedComposer: one document composer shared by two goroutines applying distinct patch lists (each with
// an ietf-json-patch and an add-also-known-as patch) to distinct documents: no call writes state reachable from the
// composer, and each result equals that of a private composer.
func Harness_C20_SharedComposer() {
	shared := New()
	mk := func(tag string) (document.Document, []patch.Patch) {
		doc := document.Document{"name": "old-" + verifrt.AnyAtom(tag+"-old")}
		jp, err := patch.NewJSONPatch(mustJSON([]interface{}{map[string]interface{}{"op": "replace", "path": "/name", "value": "new-" + tag}}))
		aka, err2 := patch.NewAddAlsoKnownAs(mustJSON([]interface{}{"https://aka.example/" + verifrt.AnyAtom(tag+"-aka")}))
		if err != nil || err2 != nil {
			verifrt.Fail("a patch constructor refuses valid input")
			verifrt.Assume(false)
		}
		return doc, []patch.Patch{jp, aka}
	}
	d1, p1 := mk("a")
	d2, p2 := mk("b")
	s1, e1 := New().ApplyPatches(d1, p1)
	s2, e2 := New().ApplyPatches(d2, p2)
	var r1, r2 document.Document
	var x1, x2 error
	verifrt.Concurrent(
		func() { r1, x1 = shared.ApplyPatches(d1, p1) },
		func() { r2, x2 = shared.ApplyPatches(d2, p2) },
	)
	verifrt.Reach("done")
	if e1 != nil || e2 != nil || x1 != nil || x2 != nil {
		verifrt.Fail("applying valid patches fails")
		return
	}
	verifrt.Assert(verifrt.JSONEqual(r1, s1) && verifrt.JSONEqual(r2, s2), "concurrent ApplyPatches calls on a shared composer return the same documents as private composers")
}
