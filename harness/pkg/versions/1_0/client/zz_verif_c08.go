package client

import (
	"github.com/trustbloc/sidetree-go/pkg/api/operation"
	"github.com/trustbloc/sidetree-go/pkg/api/protocol"
	"github.com/trustbloc/sidetree-go/pkg/canonicalizer"
	gen "github.com/trustbloc/sidetree-go/pkg/internal/verifgen"
	verifrt "github.com/trustbloc/sidetree-go/pkg/internal/verifrt"
	"github.com/trustbloc/sidetree-go/pkg/patch"
	"github.com/trustbloc/sidetree-go/pkg/versions/1_0/doccomposer"
	"github.com/trustbloc/sidetree-go/pkg/versions/1_0/model"
	"github.com/trustbloc/sidetree-go/pkg/versions/1_0/operationapplier"
	"github.com/trustbloc/sidetree-go/pkg/versions/1_0/operationparser"
)

type c08Env struct {
	p       protocol.Protocol
	parser  *operationparser.Parser
	applier *operationapplier.Applier
	ns      string
	code    uint
}

func newEnv() *c08Env {
	p := gen.Protocol("p", false)
	parser := operationparser.New(p)
	return &c08Env{p: p, parser: parser, applier: operationapplier.New(p, parser, doccomposer.New()), ns: "did:" + verifrt.AnyAtom("method"), code: gen.SHA256}
}

// accept: the request is accepted by a parser configured with the matching protocol; its anchored form is the
// canonical encoding of the same request, keeps suffix, type and anchor origin, and applies to the same state.
func (e *c08Env) accept(req []byte, rm *protocol.ResolutionModel, typ operation.Type, txTime uint64, what string) *protocol.ResolutionModel {
	op, err := e.parser.Parse(e.ns, req)
	if err != nil {
		verifrt.Observe("parse-error", err.Error())
		verifrt.Fail("a request produced by the builders is rejected by the parser: " + what)
		verifrt.Assume(false)
	}
	verifrt.Assert(op.Type == typ, "builder output has the requested type")
	internal, err := e.parser.ParseOperation(e.ns, req, false)
	if err != nil {
		verifrt.Fail("ParseOperation rejects what Parse accepted")
		verifrt.Assume(false)
	}
	anchored, err := model.GetAnchoredOperation(internal)
	if err != nil {
		verifrt.Fail("conversion to the anchored form fails")
		verifrt.Assume(false)
	}
	canon, cerr := canonicalizer.MarshalCanonical(req)
	verifrt.Assert(cerr == nil && string(anchored.OperationRequest) == string(canon), "anchored bytes are the canonical encoding of the same request")
	verifrt.Assert(anchored.UniqueSuffix == op.UniqueSuffix && anchored.Type == op.Type && verifrt.JSONEqual(anchored.AnchorOrigin, op.AnchorOrigin),
		"the anchored form keeps suffix, type and anchor origin")
	anchored.TransactionTime, anchored.TransactionNumber = txTime, 1
	orig := &operation.AnchoredOperation{Type: op.Type, UniqueSuffix: op.UniqueSuffix, OperationRequest: req, TransactionTime: txTime, TransactionNumber: 1, AnchorOrigin: op.AnchorOrigin}
	s1, err1 := e.applier.Apply(anchored, rm)
	s2, err2 := e.applier.Apply(orig, rm)
	if err1 != nil || err2 != nil {
		verifrt.Fail("a builder-made request is refused by the applier: " + what)
		verifrt.Assume(false)
	}
	verifrt.Assert(verifrt.JSONEqual(s1.Doc, s2.Doc) && s1.UpdateCommitment == s2.UpdateCommitment && s1.RecoveryCommitment == s2.RecoveryCommitment && s1.Deactivated == s2.Deactivated,
		"anchored and original bytes apply to the same state")
	return s1
}

// Harness_C08_Lifecycle: create -> update -> recover -> deactivate, each built by the request builders.
func Harness_C08_Lifecycle() {
	e := newEnv()
	upd1, rec1 := gen.NewSigner("upd1"), gen.NewSigner("rec1")
	upd2, rec2 := gen.NewSigner("upd2"), gen.NewSigner("rec2")
	upd3 := gen.Key("upd3")
	verifrt.Assume(upd1.JWK.X != rec1.JWK.X && upd1.JWK.X != upd2.JWK.X && rec1.JWK.X != rec2.JWK.X && upd2.JWK.X != rec2.JWK.X && upd1.JWK.X != rec2.JWK.X && upd2.JWK.X != rec1.JWK.X)

	var origin interface{}
	if verifrt.Choose("anchor-origin", 2) == 1 {
		origin = verifrt.AnyAtom("origin")
	}
	createPatch := gen.ReplacePatch("doc")
	req, err := NewCreateRequest(&CreateRequestInfo{Patches: []patch.Patch{createPatch}, RecoveryCommitment: gen.Commitment(rec1.JWK, e.code),
		UpdateCommitment: gen.Commitment(upd1.JWK, e.code), AnchorOrigin: origin, MultihashCode: e.code})
	if err != nil {
		verifrt.Fail("create builder refuses valid input")
		return
	}
	st := e.accept(req, &protocol.ResolutionModel{}, operation.TypeCreate, 100, "create")
	suffix, _ := e.parser.Parse(e.ns, req)
	did := suffix.UniqueSuffix
	want, _ := doccomposer.New().ApplyPatches(map[string]interface{}{}, []patch.Patch{createPatch})
	verifrt.Assert(verifrt.JSONEqual(st.Doc, want) && st.UpdateCommitment == gen.Commitment(upd1.JWK, e.code) && st.RecoveryCommitment == gen.Commitment(rec1.JWK, e.code) &&
		verifrt.JSONEqual(st.AnchorOrigin, origin), "create yields the requested document, commitments and anchor origin")
	verifrt.Reach("created")

	// update with an anchoring window around the transaction time
	var from, until int64
	switch verifrt.Choose("window", 4) {
	case 1:
		from, until = 150, 250
	case 2:
		until = 250 // expiry only
	case 3:
		from = 150 // not-before only
	}
	updPatch := gen.KeyPatch("added")
	req, err = NewUpdateRequest(&UpdateRequestInfo{DidSuffix: did, Patches: []patch.Patch{updPatch}, UpdateCommitment: gen.Commitment(upd2.JWK, e.code),
		UpdateKey: upd1.JWK, MultihashCode: e.code, Signer: upd1.S, RevealValue: gen.Reveal(upd1.JWK, e.code), AnchorFrom: from, AnchorUntil: until})
	if err != nil {
		verifrt.Fail("update builder refuses valid input")
		return
	}
	if internal, perr := e.parser.ParseOperation(e.ns, req, false); perr == nil {
		sd, serr := e.parser.ParseSignedDataForUpdate(internal.SignedData)
		verifrt.Assert(serr == nil && sd.AnchorFrom == from && sd.AnchorUntil == until, "the signed data carries exactly the requested anchoring window")
	}
	prevDoc := st.Doc
	st = e.accept(req, st, operation.TypeUpdate, 200, "update")
	want, _ = doccomposer.New().ApplyPatches(prevDoc, []patch.Patch{updPatch})
	verifrt.Assert(verifrt.JSONEqual(st.Doc, want) && st.UpdateCommitment == gen.Commitment(upd2.JWK, e.code) && st.RecoveryCommitment == gen.Commitment(rec1.JWK, e.code),
		"update yields the patched document and advances only the update commitment")
	verifrt.Reach("updated")

	// recover
	recPatch := gen.ReplacePatch("recovered")
	// an anchoring window around the recover's transaction time (300), in each of the four shapes
	var rfrom, runtil int64
	switch verifrt.Choose("recover-window", 4) {
	case 1:
		rfrom, runtil = 250, 350
	case 2:
		runtil = 350
	case 3:
		rfrom = 250
	}
	req, err = NewRecoverRequest(&RecoverRequestInfo{DidSuffix: did, RecoveryKey: rec1.JWK, Patches: []patch.Patch{recPatch}, RecoveryCommitment: gen.Commitment(rec2.JWK, e.code),
		UpdateCommitment: gen.Commitment(upd3, e.code), AnchorOrigin: origin, MultihashCode: e.code, Signer: rec1.S, RevealValue: gen.Reveal(rec1.JWK, e.code),
		AnchorFrom: rfrom, AnchorUntil: runtil})
	if err != nil {
		verifrt.Fail("recover builder refuses valid input")
		return
	}
	if internal, perr := e.parser.ParseOperation(e.ns, req, false); perr == nil {
		sd, serr := e.parser.ParseSignedDataForRecover(internal.SignedData)
		verifrt.Assert(serr == nil && sd.AnchorFrom == rfrom && sd.AnchorUntil == runtil, "the recover's signed data carries exactly the requested anchoring window")
	}
	st = e.accept(req, st, operation.TypeRecover, 300, "recover")
	want, _ = doccomposer.New().ApplyPatches(map[string]interface{}{}, []patch.Patch{recPatch})
	verifrt.Assert(verifrt.JSONEqual(st.Doc, want) && st.UpdateCommitment == gen.Commitment(upd3, e.code) && st.RecoveryCommitment == gen.Commitment(rec2.JWK, e.code),
		"recover yields the new document and both new commitments (not swapped)")
	verifrt.Reach("recovered")

	// deactivate
	var dfrom, duntil int64
	switch verifrt.Choose("deactivate-window", 4) {
	case 1:
		dfrom, duntil = 350, 450
	case 2:
		duntil = 450
	case 3:
		dfrom = 350
	}
	req, err = NewDeactivateRequest(&DeactivateRequestInfo{DidSuffix: did, RecoveryKey: rec2.JWK, Signer: rec2.S, RevealValue: gen.Reveal(rec2.JWK, e.code),
		AnchorFrom: dfrom, AnchorUntil: duntil})
	if err != nil {
		verifrt.Fail("deactivate builder refuses valid input")
		return
	}
	if internal, perr := e.parser.ParseOperation(e.ns, req, false); perr == nil {
		sd, serr := e.parser.ParseSignedDataForDeactivate(internal.SignedData)
		verifrt.Assert(serr == nil && sd.AnchorFrom == dfrom && sd.AnchorUntil == duntil, "the deactivate's signed data carries exactly the requested anchoring window")
	}
	st = e.accept(req, st, operation.TypeDeactivate, 400, "deactivate")
	verifrt.Assert(st.Deactivated && st.UpdateCommitment == "" && st.RecoveryCommitment == "", "deactivate yields a deactivated state without commitments")
	verifrt.Reach("deactivated")
}

// Harness_C08_BuildersRefuse: builders refuse inputs that would make an unacceptable request.
func Harness_C08_BuildersRefuse() {
	code := uint(gen.SHA256)
	k1, k2 := gen.NewSigner("k1"), gen.Key("k2")
	verifrt.Reach("checked")
	switch verifrt.Choose("case", 7) {
	case 6: // update commitment computed with another algorithm
		_, err := NewCreateRequest(&CreateRequestInfo{Patches: []patch.Patch{gen.KeyPatch("p")}, RecoveryCommitment: gen.Commitment(k2, code),
			UpdateCommitment: gen.Commitment(k1.JWK, gen.SHA512), MultihashCode: code})
		verifrt.Assert(err != nil, "create builder refuses an update commitment computed with another hash algorithm")
	case 0: // equal commitments
		c := gen.Commitment(k2, code)
		_, err := NewCreateRequest(&CreateRequestInfo{Patches: []patch.Patch{gen.KeyPatch("p")}, RecoveryCommitment: c, UpdateCommitment: c, MultihashCode: code})
		verifrt.Assert(err != nil, "create builder refuses equal recovery and update commitments")
	case 1: // commitment computed with another algorithm
		_, err := NewCreateRequest(&CreateRequestInfo{Patches: []patch.Patch{gen.KeyPatch("p")}, RecoveryCommitment: gen.Commitment(k2, gen.SHA512),
			UpdateCommitment: gen.Commitment(k1.JWK, code), MultihashCode: code})
		verifrt.Assert(err != nil, "create builder refuses a commitment computed with another hash algorithm")
	case 2: // unsupported multihash code
		bad := verifrt.AnyUint("code")
		verifrt.Assume(bad != gen.SHA256 && bad != gen.SHA512)
		_, err := NewCreateRequest(&CreateRequestInfo{Patches: []patch.Patch{gen.KeyPatch("p")}, RecoveryCommitment: gen.Commitment(k2, code),
			UpdateCommitment: gen.Commitment(k1.JWK, code), MultihashCode: bad})
		verifrt.Assert(err != nil, "create builder refuses a hash algorithm it cannot compute")
	case 3: // update re-using the signing key
		_, err := NewUpdateRequest(&UpdateRequestInfo{DidSuffix: "s", Patches: []patch.Patch{gen.KeyPatch("p")}, UpdateCommitment: gen.Commitment(k1.JWK, code),
			UpdateKey: k1.JWK, MultihashCode: code, Signer: k1.S, RevealValue: gen.Reveal(k1.JWK, code)})
		verifrt.Assert(err != nil, "update builder refuses a next commitment made from the current key")
	case 4: // recover re-using the signing key
		_, err := NewRecoverRequest(&RecoverRequestInfo{DidSuffix: "s", RecoveryKey: k1.JWK, Patches: []patch.Patch{gen.KeyPatch("p")}, RecoveryCommitment: gen.Commitment(k1.JWK, code),
			UpdateCommitment: gen.Commitment(k2, code), MultihashCode: code, Signer: k1.S, RevealValue: gen.Reveal(k1.JWK, code)})
		verifrt.Assert(err != nil, "recover builder refuses a next recovery commitment made from the current key")
	case 5: // missing pieces
		_, err1 := NewDeactivateRequest(&DeactivateRequestInfo{DidSuffix: "", RecoveryKey: k1.JWK, Signer: k1.S, RevealValue: "r"})
		_, err2 := NewUpdateRequest(&UpdateRequestInfo{DidSuffix: "s", UpdateCommitment: gen.Commitment(k2, code), UpdateKey: k1.JWK, MultihashCode: code, Signer: k1.S, RevealValue: "r"})
		verifrt.Assert(err1 != nil && err2 != nil, "builders refuse a missing suffix or missing patches")
	}
}

// Harness_C08_BuilderOutputAccepted: whatever a builder emits is accepted by a parser configured with the matching
// protocol (both hash algorithms allowed, since commitments and reveal values may have been made with either): the
// hash algorithm of the request, of every commitment and of the reveal value is chosen independently, next keys may
// coincide - the builder either refuses or its request parses.
func Harness_C08_BuilderOutputAccepted() {
	codes := []uint{gen.SHA256, gen.SHA512}
	code := codes[verifrt.Choose("request-alg", 2)]
	recCode, updCode, revealCode := codes[verifrt.Choose("recovery-commitment-alg", 2)], codes[verifrt.Choose("update-commitment-alg", 2)], codes[verifrt.Choose("reveal-alg", 2)]
	p := gen.Protocol("p", false)
	p.MultihashAlgorithms = [][]uint{{gen.SHA256, gen.SHA512}, {gen.SHA512, gen.SHA256}}[verifrt.Choose("alg-order", 2)]
	parser := operationparser.New(p)
	ns := "did:" + verifrt.AnyAtom("method")
	cur := gen.NewSigner("current")
	nextRec, nextUpd := gen.Key("next-rec"), gen.Key("next-upd")
	if verifrt.Choose("same-next-keys", 2) == 1 {
		nextUpd = nextRec
	}
	// the signer's protected headers: alg only / with a kid / with a member the parser does not allow (alone or
	// next to a kid) - the builder has to refuse what the parser would
	signer := cur.WithHeaders([]map[string]interface{}{{}, {"kid": "key-1"}, {"typ": "JWT"}, {"kid": "key-1", "typ": "JWT"}}[verifrt.Choose("signer-headers", 4)])
	var req []byte
	var err error
	builder := verifrt.Choose("builder", 3)
	switch builder {
	case 0:
		req, err = NewCreateRequest(&CreateRequestInfo{Patches: []patch.Patch{gen.KeyPatch("p")}, RecoveryCommitment: gen.Commitment(nextRec, recCode),
			UpdateCommitment: gen.Commitment(nextUpd, updCode), MultihashCode: code})
	case 1:
		req, err = NewUpdateRequest(&UpdateRequestInfo{DidSuffix: "sfx" + verifrt.AnyAtom("suffix"), Patches: []patch.Patch{gen.KeyPatch("p")},
			UpdateCommitment: gen.Commitment(nextUpd, updCode), UpdateKey: cur.JWK, MultihashCode: code, Signer: signer, RevealValue: gen.Reveal(cur.JWK, revealCode)})
	default:
		req, err = NewRecoverRequest(&RecoverRequestInfo{DidSuffix: "sfx" + verifrt.AnyAtom("suffix"), RecoveryKey: cur.JWK, Patches: []patch.Patch{gen.KeyPatch("p")},
			RecoveryCommitment: gen.Commitment(nextRec, recCode), UpdateCommitment: gen.Commitment(nextUpd, updCode), MultihashCode: code, Signer: signer,
			RevealValue: gen.Reveal(cur.JWK, revealCode)})
	}
	if err != nil {
		verifrt.Reach("refused")
		return
	}
	verifrt.Reach("built")
	if builder == 2 && gen.Commitment(nextRec, recCode) == gen.Commitment(nextUpd, updCode) {
		// own label: the recover builder, unlike the create builder, lets equal next commitments through
		// (known finding; the existing Sidetree client tests recover with one key for both)
		verifrt.Fail("the recover builder refuses equal next recovery and update commitments, as the create builder and the parser do")
		return
	}
	_, perr := parser.Parse(ns, req)
	if perr != nil {
		verifrt.Observe("parse-error", perr.Error())
	}
	verifrt.Assert(perr == nil, "a request a builder emits is accepted by a parser configured with the matching protocol")
}
