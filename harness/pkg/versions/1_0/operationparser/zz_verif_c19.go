package operationparser

import (
	gen "github.com/trustbloc/sidetree-go/pkg/internal/verifgen"
	verifrt "github.com/trustbloc/sidetree-go/pkg/internal/verifrt"
)

func c19Leaf(tag string) interface{} {
	switch verifrt.Choose(tag+"-kind", 7) {
	case 0:
		return nil
	case 1:
		return true
	case 2:
		return 7.0
	case 3:
		return ""
	case 4:
		return "x" + verifrt.AnyAtom(tag)
	case 5:
		return []interface{}{}
	}
	return map[string]interface{}{}
}

// Harness_C19_ParseCorrupted: structure-aware corruptions of valid requests: one member removed or replaced by
// a value of another JSON type; every parser entry point answers with a value or an error.
func Harness_C19_ParseCorrupted() {
	code := uint(gen.SHA256)
	p := gen.Protocol("p", false)
	parser := New(p)
	suffix := "sfx" + verifrt.AnyAtom("suffix")
	var req map[string]interface{}
	switch verifrt.Choose("type", 4) {
	case 0:
		req = gen.JSONValue(gen.JSON(gen.NewCreate("c", code, gen.KeyPatch("kp")).Request)).(map[string]interface{})
	case 1:
		req = gen.JSONValue(gen.JSON(gen.NewUpdate(suffix, code, gen.NewSigner("u"), gen.Key("n"), 0, 0, gen.KeyPatch("kp")).Request)).(map[string]interface{})
	case 2:
		req = gen.JSONValue(gen.JSON(gen.NewRecover(suffix, code, gen.NewSigner("r"), gen.Key("nr"), gen.Key("nu"), 0, 0, gen.ReplacePatch("rp")).Request)).(map[string]interface{})
	case 3:
		req = gen.JSONValue(gen.JSON(gen.NewDeactivate(suffix, code, gen.NewSigner("r"), 0, 0).Request)).(map[string]interface{})
	}
	members := []string{"type", "suffixData", "delta", "didSuffix", "revealValue", "signedData"}
	m := members[verifrt.Choose("member", len(members))]
	switch verifrt.Choose("corruption", 3) {
	case 0:
		delete(req, m)
	case 1:
		req[m] = c19Leaf("leaf")
	case 2: // one level down
		if sub, ok := req[m].(map[string]interface{}); ok {
			for _, k := range []string{"patches", "updateCommitment", "deltaHash", "recoveryCommitment"} {
				if _, has := sub[k]; has && verifrt.Choose("sub-"+k, 2) == 1 {
					sub[k] = c19Leaf("sub")
				}
			}
		}
	}
	buf := gen.JSON(req)
	_, _ = parser.Parse("did:ns", buf)
	_, _ = parser.ParseOperation("did:ns", buf, true)
	_, _ = parser.GetRevealValue(buf)
	_, _ = parser.GetCommitment(buf)
	verifrt.Reach("answered")
}

// Harness_C19_ParseDID: short- and long-form DIDs with odd shapes.
func Harness_C19_ParseDID() {
	parser := New(gen.Protocol("p", false))
	ns := "did:ns"
	var did string
	switch verifrt.Choose("shape", 6) {
	case 0:
		did = verifrt.AnyStr("raw", verifrt.Choose("len", 4))
	case 1:
		did = ns + ":" + verifrt.AnyStr("tail", 2)
	case 2:
		did = ns + ":sfx:" + verifrt.AnyAtom("state")
	case 3:
		did = ns + ":sfx:"
	case 4:
		did = ":" + ns + "::"
	case 5:
		did = ns + ns + ":"
	}
	if verifrt.Choose("opaque-state", 2) == 1 && did != "" {
		_, _, _ = parser.ParseDID(ns, did)
	} else {
		_, _, _ = parser.ParseDID(verifrt.AnyStr("ns", 1), did)
	}
	verifrt.Reach("answered")
}
