package operationparser

import (
	"github.com/trustbloc/sidetree-go/pkg/api/operation"
	gen "github.com/trustbloc/sidetree-go/pkg/internal/verifgen"
	verifrt "github.com/trustbloc/sidetree-go/pkg/internal/verifrt"
)

// Harness_C20_SharedParser: one operation parser shared by three goroutines parsing distinct signed requests
// (deactivate, update, recover). Parsing only reads the parser and the protocol parameters it was built from (their
// lists share backing arrays with the caller's protocol value and every other component built from it): no call
// writes them, the results equal those of a private parser, and the lists are unchanged afterwards.
func Harness_C20_SharedParser() {
	code := uint(gen.SHA256)
	p := gen.Protocol("p", false)
	shared := New(p)
	d := gen.NewDeactivate("sfx"+verifrt.AnyAtom("s1"), code, gen.NewSigner("k1"), 0, 0)
	u := gen.NewUpdate("sfx"+verifrt.AnyAtom("s2"), code, gen.NewSigner("k2"), gen.Key("n2"), 0, 0, gen.KeyPatch("kp"))
	r := gen.NewRecover("sfx"+verifrt.AnyAtom("s3"), code, gen.NewSigner("k3"), gen.Key("nr"), gen.Key("nu"), 0, 0, gen.ReplacePatch("rp"))
	verifrt.Assume(r.Delta.UpdateCommitment != r.Signed.RecoveryCommitment)
	b1, b2, b3 := gen.JSON(d.Request), gen.JSON(u.Request), gen.JSON(r.Request)
	private := func() *Parser { return New(gen.Protocol("q", false)) }
	s1, e1 := private().Parse("did:ns", b1)
	s2, e2 := private().Parse("did:ns", b2)
	s3, e3 := private().Parse("did:ns", b3)
	var r1, r2, r3 *operation.Operation
	var x1, x2, x3 error
	verifrt.Concurrent(
		func() { r1, x1 = shared.Parse("did:ns", b1) },
		func() { r2, x2 = shared.Parse("did:ns", b2) },
		func() { r3, x3 = shared.Parse("did:ns", b3) },
	)
	verifrt.Reach("done")
	if e1 != nil || e2 != nil || e3 != nil || x1 != nil || x2 != nil || x3 != nil {
		verifrt.Fail("a valid request is refused")
		return
	}
	verifrt.Assert(verifrt.JSONEqual(r1, s1) && verifrt.JSONEqual(r2, s2) && verifrt.JSONEqual(r3, s3),
		"concurrent Parse calls on a shared parser return the same operations as private parsers")
	fresh := gen.Protocol("f", false)
	verifrt.Assert(verifrt.JSONEqual(p.SignatureAlgorithms, fresh.SignatureAlgorithms) && verifrt.JSONEqual(p.KeyAlgorithms, fresh.KeyAlgorithms) &&
		verifrt.JSONEqual(p.Patches, fresh.Patches) && verifrt.JSONEqual(p.MultihashAlgorithms, fresh.MultihashAlgorithms),
		"the protocol parameters the parser was built from are unchanged by parsing")
}
