package operationparser

import (
	"github.com/trustbloc/sidetree-go/pkg/api/operation"
	"github.com/trustbloc/sidetree-go/pkg/api/protocol"
	"github.com/trustbloc/sidetree-go/pkg/canonicalizer"
	"github.com/trustbloc/sidetree-go/pkg/hashing"
	gen "github.com/trustbloc/sidetree-go/pkg/internal/verifgen"
	verifrt "github.com/trustbloc/sidetree-go/pkg/internal/verifrt"
	"github.com/trustbloc/sidetree-go/pkg/patch"
)

func somePatches(tag string) []patch.Patch {
	switch verifrt.Choose(tag+"-patches", 3) {
	case 0:
		return []patch.Patch{gen.KeyPatch(tag + "0")}
	case 1:
		return []patch.Patch{gen.ReplacePatch(tag + "0")}
	}
	return []patch.Patch{gen.ReplacePatch(tag + "0"), gen.KeyPatch(tag + "1")}
}

// Harness_C03_SelfCertifying: for every accepted create request the suffix is the multihash of the
// canonical suffix data, the id is namespace:suffix, the delta is bound by hash; any single-leaf change
// changes the DID or causes rejection; the JSON spelling of the request does not matter.
func Harness_C03_SelfCertifying() {
	code := []uint{gen.SHA256, gen.SHA512}[verifrt.Choose("alg", 2)]
	p := gen.Protocol("p_", false)
	p.MultihashAlgorithms = []uint{code}
	if verifrt.Choose("both-algs", 2) == 1 {
		p.MultihashAlgorithms = []uint{code, gen.SHA256 + gen.SHA512 - code}
	}
	// the client may hash with any configured algorithm; the suffix always uses the first configured one
	clientCode := code
	if len(p.MultihashAlgorithms) == 2 && verifrt.Choose("client-alg", 2) == 1 {
		clientCode = p.MultihashAlgorithms[1]
	}
	c := gen.NewCreate("c", clientCode, somePatches("c")...)
	if verifrt.Choose("anchor-origin", 2) == 1 {
		// an opaque string, a URL-like string with a trailing slash / surrounding blanks / upper-case letters (nothing
		// is normalised: the suffix data is hashed as given), or an object
		switch verifrt.Choose("origin-shape", 4) {
		case 0:
			c.Suffix.AnchorOrigin = verifrt.AnyAtom("origin")
		case 1:
			c.Suffix.AnchorOrigin = "https://origin.example/" + verifrt.AnyAtom("origin") + "/"
		case 2:
			c.Suffix.AnchorOrigin = " HTTPS://Origin.Example/" + verifrt.AnyAtom("origin") + " "
		default:
			c.Suffix.AnchorOrigin = map[string]interface{}{"domain": verifrt.AnyAtom("origin")}
		}
	}
	if verifrt.Choose("type", 2) == 1 {
		c.Suffix.Type = verifrt.AnyAtom("suffix-type")
	}
	// the namespace is whatever the caller configures: also one that ends with the delimiter or has further segments
	ns := "did:" + verifrt.AnyAtom("method") + []string{"", ":", ":sub", "::"}[verifrt.Choose("namespace-tail", 4)]
	parser := New(p)
	withinLimits(p, c)
	op, err := parser.Parse(ns, gen.JSON(c.Request))
	if err != nil {
		verifrt.Observe("parse-error", err.Error())
		verifrt.Fail("a well-formed create request is rejected")
		return
	}
	verifrt.Reach("accepted")
	want := gen.ModelHash(c.Suffix, code)
	verifrt.Assert(op.UniqueSuffix == want, "unique suffix = multihash(first configured algorithm, JCS(suffix data))")
	verifrt.Assert(op.ID == ns+":"+want, "id = namespace ':' suffix")
	verifrt.Assert(op.Type == operation.TypeCreate, "type of the returned operation is create")
	verifrt.Assert(hashing.IsValidModelMultihash(c.Delta, c.Suffix.DeltaHash) == nil, "accepted outside batch mode => delta hashes to the recorded delta hash")

	// same request, canonical spelling (member order / whitespace differ from the struct order)
	canon, cerr := canonicalizer.MarshalCanonical(c.Request)
	if cerr != nil {
		verifrt.Fail("canonicalization failed")
		return
	}
	op2, err2 := parser.Parse(ns, canon)
	verifrt.Assert(err2 == nil && op2.UniqueSuffix == op.UniqueSuffix && op2.ID == op.ID, "the same request denotes the same DID whatever its JSON spelling")

	// single-leaf modification: a different DID or a rejection
	switch verifrt.Choose("modify", 7) {
	case 6: // the recorded delta hash with one letter's case changed: another, still well-formed multihash text
		if swapped, ok := verifrt.SwapCase(c.Suffix.DeltaHash); ok {
			c.Suffix.DeltaHash = swapped
		}
	case 0:
		c.Suffix.RecoveryCommitment = gen.Commitment(gen.Key("other-rec"), clientCode)
	case 1:
		c.Suffix.DeltaHash = gen.ModelHash(gen.Delta(gen.Commitment(gen.Key("other-upd"), clientCode), gen.KeyPatch("other")), clientCode)
	case 2:
		c.Suffix.AnchorOrigin = verifrt.AnyAtom("origin2")
	case 3:
		c.Suffix.Type = verifrt.AnyAtom("suffix-type2")
	case 4:
		c.Delta.UpdateCommitment = gen.Commitment(gen.Key("other-upd"), clientCode)
	case 5:
		c.Delta.Patches = append([]patch.Patch{gen.KeyPatch("extra")}, c.Delta.Patches...)
	}
	withinLimits(p, c)
	changed := !verifrt.JSONEqual(c.Request, gen.JSONValue(canon))
	op3, err3 := parser.Parse(ns, gen.JSON(c.Request))
	if err3 != nil {
		verifrt.Reach("modified-rejected")
		return
	}
	verifrt.Reach("modified-accepted")
	verifrt.Assert(!changed || op3.UniqueSuffix != op.UniqueSuffix, "changing any part of suffix data or delta changes the DID or causes rejection")
	verifrt.Assert(c.Suffix.DeltaHash == gen.ModelHash(c.Delta, clientCode), "outside batch mode the delta of an accepted create request hashes to the delta hash recorded in its suffix data")
}

// withinLimits: sizes are not the subject here - assume the request and its delta fit the configured limits
// in both the struct-order and the canonical spelling.
func withinLimits(p protocol.Protocol, c *gen.Create) {
	cd, err := canonicalizer.MarshalCanonical(c.Delta)
	cr, err2 := canonicalizer.MarshalCanonical(c.Request)
	verifrt.Assume(err == nil && err2 == nil && len(cd) <= int(p.MaxDeltaSize) && len(gen.JSON(c.Request)) <= int(p.MaxOperationSize) && len(cr) <= int(p.MaxOperationSize))
}
