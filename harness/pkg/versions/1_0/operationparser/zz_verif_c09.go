package operationparser

import (
	gen "github.com/trustbloc/sidetree-go/pkg/internal/verifgen"
	verifrt "github.com/trustbloc/sidetree-go/pkg/internal/verifrt"
)

// Harness_C09_ParserWindow: for not-yet-anchored update, recover and deactivate requests the parser hands
// (from, until | from + MaxOperationTimeDelta) to the configured time validator - for all 64-bit from/until and with
// every other numeric protocol limit symbolic (only constrained to admit the request).
func Harness_C09_ParserWindow() {
	code := uint(gen.SHA256)
	p := gen.Protocol("p", true)
	from, until := verifrt.AnyI64("from"), verifrt.AnyI64("until")
	verifrt.Assume(from > -(1<<62) && from < 1<<62 && until > -(1<<62) && until < 1<<62)
	suffix := "sfx" + verifrt.AnyAtom("suffix")
	var buf []byte
	var deltaLen int
	switch verifrt.Choose("type", 3) {
	case 0:
		u := gen.NewUpdate(suffix, code, gen.NewSigner("k"), gen.Key("n"), from, until, gen.KeyPatch("kp"))
		buf, deltaLen = gen.JSON(u.Request), canonLen(u.Delta)
	case 1:
		r := gen.NewRecover(suffix, code, gen.NewSigner("k"), gen.Key("nr"), gen.Key("nu"), from, until, gen.ReplacePatch("rp"))
		verifrt.Assume(r.Delta.UpdateCommitment != r.Signed.RecoveryCommitment)
		buf, deltaLen = gen.JSON(r.Request), canonLen(r.Delta)
	case 2:
		d := gen.NewDeactivate(suffix, code, gen.NewSigner("k"), from, until)
		buf = gen.JSON(d.Request)
	}
	// the other limits are free as long as they admit this request
	verifrt.Assume(int(p.MaxOperationSize) >= len(buf) && int(p.MaxDeltaSize) >= deltaLen && p.MaxOperationHashLength >= 100)
	tv := &recordingTimeValidator{}
	_, err := New(p, WithAnchorTimeValidator(tv)).Parse("did:ns", buf)
	if err != nil {
		verifrt.Fail("a valid request within the configured limits is rejected")
		return
	}
	verifrt.Reach("parsed")
	want := until
	if from != 0 && until == 0 {
		want = from + int64(p.MaxOperationTimeDelta)
	}
	verifrt.Assert(tv.called && tv.from == from && tv.until == want, "the parser hands (from, until | from + MaxOperationTimeDelta) to the time validator, whatever the other limits are")
}
