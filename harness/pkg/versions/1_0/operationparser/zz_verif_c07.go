package operationparser

import (
	"github.com/trustbloc/sidetree-go/pkg/api/operation"
	"github.com/trustbloc/sidetree-go/pkg/api/protocol"
	"github.com/trustbloc/sidetree-go/pkg/canonicalizer"
	"github.com/trustbloc/sidetree-go/pkg/encoder"
	gen "github.com/trustbloc/sidetree-go/pkg/internal/verifgen"
	verifrt "github.com/trustbloc/sidetree-go/pkg/internal/verifrt"
	"github.com/trustbloc/sidetree-go/pkg/jws"
	"github.com/trustbloc/sidetree-go/pkg/patch"
	"github.com/trustbloc/sidetree-go/pkg/versions/1_0/model"
)

// around: a limit placed at distance d in [-2, 2] from an actual size - every off-by-one is inside.
func around(tag string, size int) (uint, bool) {
	d := verifrt.AnyI64(tag)
	verifrt.Assume(d >= -2 && d <= 2 && int64(size)+d >= 0)
	return uint(int64(size) + d), d >= 0
}

func canonLen(v interface{}) int {
	b, err := canonicalizer.MarshalCanonical(v)
	if err != nil {
		verifrt.Fail("canonicalization failed")
	}
	return len(b)
}

func checkReturned(op *operation.Operation, ns string, typ operation.Type, suffix string, buf []byte, origin interface{}) {
	verifrt.Assert(op.Type == typ, "returned operation carries the request's type")
	verifrt.Assert(op.UniqueSuffix == suffix, "returned operation carries the request's unique suffix")
	verifrt.Assert(op.ID == ns+":"+suffix, "returned operation carries the namespaced id")
	verifrt.Assert(verifrt.SameObject(op.OperationRequest, buf), "returned operation carries the original bytes")
	verifrt.Assert(verifrt.JSONEqual(op.AnchorOrigin, origin), "returned operation carries the request's anchor origin")
}

// Harness_C07_Create: a create request is accepted iff every rule holds; one labelled mutation per rule, limits
// placed around the actual sizes.
func Harness_C07_Create() {
	code := uint(gen.SHA256)
	p := gen.Protocol("p", false)
	badPatch := patch.Patch{patch.ActionKey: "add-public-keys", patch.PublicKeys: []interface{}{map[string]interface{}{"id": "!!", "type": "JsonWebKey2020",
		"publicKeyJwk": map[string]interface{}{"kty": "EC", "crv": "P-256", "x": "x", "y": "y"}}}}
	patches := []patch.Patch{gen.KeyPatch("kp")}
	m := verifrt.Choose("mutation", 15)
	switch m {
	case 7:
		patches = nil
	case 8:
		p.Patches = []string{"replace", "remove-public-keys"}
	case 9:
		// a delta is made only of individually valid patches: one invalid patch of any kind behind a valid one
		bad := []patch.Patch{badPatch,
			{patch.ActionKey: "ietf-json-patch", patch.PatchesKey: []interface{}{map[string]interface{}{"op": "replace", "path": "/service/0/type", "value": "x"}}},
			{patch.ActionKey: "ietf-json-patch", patch.PatchesKey: []interface{}{map[string]interface{}{"op": "move", "from": "/publicKey/0", "path": "/backup"}}},
			{patch.ActionKey: "ietf-json-patch", patch.PatchesKey: []interface{}{map[string]interface{}{"op": "copy", "from": "x/service", "path": "/backup"}}},
			{patch.ActionKey: "remove-services", patch.IdsKey: []interface{}{"svc1", 7.0}},
			{patch.ActionKey: "add-also-known-as", patch.UrisKey: []interface{}{"::bad uri"}},
		}[verifrt.Choose("invalid-patch", 6)]
		patches = []patch.Patch{gen.KeyPatch("kp"), bad}
	}
	c := gen.NewCreate("c", code, patches...)
	origin := interface{}(nil)
	if verifrt.Choose("has-origin", 2) == 1 {
		c.Suffix.AnchorOrigin = verifrt.AnyAtom("origin")
		origin = c.Suffix.AnchorOrigin
	}
	want := true
	switch m {
	case 2:
		c.Request.Operation = operation.Type(verifrt.AnyAtom("type"))
		verifrt.Assume(c.Request.Operation != "create" && c.Request.Operation != "update" && c.Request.Operation != "recover" && c.Request.Operation != "deactivate")
		want = false
	case 3:
		c.Suffix.RecoveryCommitment = gen.Commitment(c.RecoveryKey, gen.SHA512)
		want = false
	case 4:
		c.Suffix.DeltaHash = gen.ModelHash(c.Delta, gen.SHA512)
		want = false
	case 6:
		c.Request.Delta = nil
		want = false
	case 7, 8, 9:
		want = false
	case 11:
		c.Delta.UpdateCommitment = gen.Commitment(c.UpdateKey, gen.SHA512)
		c.Suffix.DeltaHash = gen.ModelHash(c.Delta, code)
		want = false
	case 12:
		other := gen.Delta(gen.Commitment(gen.Key("o"), code), gen.KeyPatch("o"))
		verifrt.Assume(!verifrt.JSONEqual(other, c.Delta))
		c.Suffix.DeltaHash = gen.ModelHash(other, code)
		want = false
	case 13:
		c.Suffix.RecoveryCommitment = c.Delta.UpdateCommitment
		want = false
	case 14:
		c.Request.SuffixData = nil
		want = false
	}
	buf := gen.JSON(c.Request)
	switch m {
	case 1:
		// whitespace around the request is part of the operation's bytes and counts towards its size
		pads := []string{"", " ", "\n", "\r\n\t"}
		buf = []byte(pads[verifrt.Choose("leading-space", 4)] + string(buf) + pads[verifrt.Choose("trailing-space", 4)])
		var ok bool
		p.MaxOperationSize, ok = around("size-delta", len(buf))
		want = ok
	case 5:
		var ok bool
		p.MaxOperationHashLength, ok = around("hash-delta", len(c.Suffix.RecoveryCommitment))
		want = ok
	case 10:
		var ok bool
		p.MaxDeltaSize, ok = around("delta-delta", canonLen(c.Delta))
		want = ok
	}
	ns := "did:" + verifrt.AnyAtom("method")
	op, err := New(p).Parse(ns, buf)
	if err != nil {
		verifrt.Reach("rejected")
		verifrt.Assert(!want, "a create request obeying the configured protocol is accepted")
		return
	}
	verifrt.Reach("accepted")
	verifrt.Assert(want, "create: size, type, configured hash algorithms and lengths, delta present/non-empty/within size/enabled valid patches, delta hash, distinct commitments")
	checkReturned(op, ns, operation.TypeCreate, gen.ModelHash(c.Suffix, code), buf, origin)
}

func nonce(n int) string { return encoder.EncodeToString(verifrt.AnyBytes("nonce", n)) }

// signedMutation mutates the key / JWS of a signed request; returns the expected verdict.
// 20 none, 21 alg not allowed, 22 extra header, 23 curve not allowed, 24 nonce of wrong size, 25 nonce of right size,
// 26 reveal mismatch, 27 missing suffix, 28 missing signed data, 29 reveal with unconfigured algorithm
func mutateKey(m int, k *gen.Signer, p *protocol.Protocol) bool {
	switch m {
	case 32: // a key that is well-formed but names no curve (RSA members): not on an allowed curve
		k.JWK = &jws.JWK{Kty: "RSA", N: verifrt.AnyAtom("rsa-n"), E: "AQAB"}
		return false
	case 33: // a key on a curve outside the allowed list, the list itself unchanged
		cp := *k.JWK
		cp.Crv = "P-384"
		k.JWK = &cp
		return false
	case 23:
		p.KeyAlgorithms = []string{"Ed25519", "secp256k1"}
		return false
	case 24, 25:
		cp := *k.JWK
		cp.Nonce = nonce(4)
		k.JWK = &cp
		if m == 24 {
			var ok bool
			d := verifrt.AnyI64("nonce-delta")
			verifrt.Assume(d >= -2 && d <= 2 && d != 0)
			p.NonceSize = uint64(4 + d)
			ok = false
			return ok
		}
		p.NonceSize = 4
	}
	return true
}

func headersFor(m int) map[string]interface{} {
	switch m {
	case 21:
		return map[string]interface{}{"alg": "HS256"}
	case 22:
		return map[string]interface{}{"alg": "ES256", "kid": "k", "typ": "JWT"}
	case 30: // a case variant of an allowed name is another member
		return map[string]interface{}{"alg": "ES256", "kid": "k", "Kid": "someone-else"}
	case 31:
		return map[string]interface{}{"alg": "ES256", "ALG": "none"}
	}
	return map[string]interface{}{"alg": "ES256", "kid": "k"}
}

func resign(m int, signedData string, k *gen.Signer, payload interface{}) string {
	// the parser does not verify signatures: the signature segment only has to be present
	return gen.CompactJWS(headersFor(m), payload, []byte("signature-bytes"))
}

type recordingTimeValidator struct {
	from, until int64
	called      bool
}

func (r *recordingTimeValidator) Validate(from, until int64) error {
	r.from, r.until, r.called = from, until, true
	return nil
}

func signedTail(m int, reveal *string, suffix *string, signedData *string, k *jws.JWK, sha512Configured bool) bool {
	switch m {
	case 26:
		*reveal = gen.Reveal(gen.Key("unrelated"), gen.SHA256)
		verifrt.Assume(*reveal != gen.Reveal(k, gen.SHA256))
		return false
	case 27:
		*suffix = ""
		return false
	case 28:
		*signedData = ""
		return false
	case 29:
		*reveal = gen.Reveal(k, gen.SHA512)
		return sha512Configured // valid exactly when SHA-512 is a configured algorithm
	}
	return true
}

var signedMutations = []int{20, 21, 22, 23, 24, 25, 26, 27, 28, 29, 30, 31, 32, 33}

// Harness_C07_Update: update requests; also the (from, until) pair handed to the time validator (C09).
func Harness_C07_Update() {
	code := uint(gen.SHA256)
	p := gen.Protocol("p", true)
	p.MaxOperationSize, p.MaxOperationHashLength, p.MaxDeltaSize = 2500, 100, 1700
	m := signedMutations[verifrt.Choose("mutation", len(signedMutations))]
	extra := verifrt.Choose("extra", 3) // 1: next commitment equals current key's commitment
	nextCode := code
	if verifrt.Choose("two-algorithms", 2) == 1 {
		// both algorithms configured (either order); the next commitment may use either of them
		p.MultihashAlgorithms = [][]uint{{gen.SHA256, gen.SHA512}, {gen.SHA512, gen.SHA256}}[verifrt.Choose("alg-order", 2)]
		nextCode = []uint{gen.SHA256, gen.SHA512}[verifrt.Choose("next-code", 2)]
	}
	k := gen.NewSigner("upd")
	want := mutateKey(m, k, &p)
	next := gen.Key("next")
	from, until := verifrt.AnyI64("from"), verifrt.AnyI64("until")
	verifrt.Assume(from > -(1<<62) && from < 1<<62 && until > -(1<<62) && until < 1<<62)
	suffix := "sfx" + verifrt.AnyAtom("suffix")
	u := gen.NewUpdate(suffix, code, k, next, from, until, gen.KeyPatch("kp"))
	if nextCode != code {
		u.Delta.UpdateCommitment = gen.Commitment(next, nextCode)
		u.Signed.DeltaHash = gen.ModelHash(u.Delta, code)
	}
	if extra == 1 {
		u.Delta.UpdateCommitment = gen.Commitment(k.JWK, nextCode)
		u.Signed.DeltaHash = gen.ModelHash(u.Delta, code)
		want = false
	}
	u.Request.SignedData = resign(m, u.Request.SignedData, k, u.Signed)
	if m == 21 || m == 22 || m == 30 || m == 31 {
		want = false
	}
	want = signedTail(m, &u.Request.RevealValue, &u.Request.DidSuffix, &u.Request.SignedData, k.JWK, len(p.MultihashAlgorithms) == 2) && want
	buf := gen.JSON(u.Request)
	tv := &recordingTimeValidator{}
	ns := "did:" + verifrt.AnyAtom("method")
	op, err := New(p, WithAnchorTimeValidator(tv)).Parse(ns, buf)
	if err != nil {
		verifrt.Reach("rejected")
		verifrt.Assert(!want, "an update request obeying the configured protocol is accepted")
		return
	}
	verifrt.Reach("accepted")
	verifrt.Assert(want, "update: allowed algorithm, only alg/kid headers, allowed curve, nonce of the configured size, reveal value matches the key, next commitment differs from the current key's")
	checkReturned(op, ns, operation.TypeUpdate, suffix, buf, nil)
	wantUntil := until
	if from != 0 && until == 0 {
		wantUntil = from + int64(p.MaxOperationTimeDelta)
	}
	verifrt.Assert(tv.called && tv.from == from && tv.until == wantUntil, "the time validator receives (from, until | from + MaxOperationTimeDelta)")
}

// Harness_C07_Recover: recover requests (anchor origin reported; commitments differ).
func Harness_C07_Recover() {
	code := uint(gen.SHA256)
	p := gen.Protocol("p", true)
	p.MaxOperationSize, p.MaxOperationHashLength, p.MaxDeltaSize = 2500, 100, 1700
	m := signedMutations[verifrt.Choose("mutation", len(signedMutations))]
	extra := verifrt.Choose("extra", 3) // 1: next recovery commitment = current key's; 2: update commitment = recovery commitment
	nextCode := code
	if verifrt.Choose("two-algorithms", 2) == 1 {
		p.MultihashAlgorithms = [][]uint{{gen.SHA256, gen.SHA512}, {gen.SHA512, gen.SHA256}}[verifrt.Choose("alg-order", 2)]
		nextCode = []uint{gen.SHA256, gen.SHA512}[verifrt.Choose("next-code", 2)]
	}
	k := gen.NewSigner("rec")
	want := mutateKey(m, k, &p)
	nextRec, nextUpd := gen.Key("next-rec"), gen.Key("next-upd")
	from, until := verifrt.AnyI64("from"), verifrt.AnyI64("until")
	verifrt.Assume(from > -(1<<62) && from < 1<<62 && until > -(1<<62) && until < 1<<62)
	suffix := "sfx" + verifrt.AnyAtom("suffix")
	r := gen.NewRecover(suffix, code, k, nextRec, nextUpd, from, until, gen.ReplacePatch("rp"))
	verifrt.Assume(r.Delta.UpdateCommitment != r.Signed.RecoveryCommitment)
	origin := interface{}(nil)
	if verifrt.Choose("has-origin", 2) == 1 {
		r.Signed.AnchorOrigin = verifrt.AnyAtom("origin")
		origin = r.Signed.AnchorOrigin
	}
	if nextCode != code {
		r.Signed.RecoveryCommitment = gen.Commitment(nextRec, nextCode)
	}
	switch extra {
	case 1:
		r.Signed.RecoveryCommitment = gen.Commitment(k.JWK, nextCode)
		want = false
	case 2:
		r.Signed.RecoveryCommitment = r.Delta.UpdateCommitment
		want = false
	}
	r.Request.SignedData = resign(m, r.Request.SignedData, k, r.Signed)
	if m == 21 || m == 22 || m == 30 || m == 31 {
		want = false
	}
	want = signedTail(m, &r.Request.RevealValue, &r.Request.DidSuffix, &r.Request.SignedData, k.JWK, len(p.MultihashAlgorithms) == 2) && want
	buf := gen.JSON(r.Request)
	tv := &recordingTimeValidator{}
	ns := "did:" + verifrt.AnyAtom("method")
	op, err := New(p, WithAnchorTimeValidator(tv)).Parse(ns, buf)
	if err != nil {
		verifrt.Reach("rejected")
		verifrt.Assert(!want, "a recover request obeying the configured protocol is accepted")
		return
	}
	verifrt.Reach("accepted")
	verifrt.Assert(want, "recover: signed-data rules, next recovery commitment differs from the current key's and from the update commitment")
	checkReturned(op, ns, operation.TypeRecover, suffix, buf, origin)
	wantUntil := until
	if from != 0 && until == 0 {
		wantUntil = from + int64(p.MaxOperationTimeDelta)
	}
	verifrt.Assert(tv.called && tv.from == from && tv.until == wantUntil, "the time validator receives (from, until | from + MaxOperationTimeDelta)")
}

// Harness_C07_Deactivate: deactivate requests (signed suffix must equal the request's).
func Harness_C07_Deactivate() {
	code := uint(gen.SHA256)
	p := gen.Protocol("p", true)
	p.MaxOperationSize, p.MaxOperationHashLength, p.MaxDeltaSize = 2500, 100, 1700
	m := signedMutations[verifrt.Choose("mutation", len(signedMutations))]
	k := gen.NewSigner("rec")
	want := mutateKey(m, k, &p)
	from, until := verifrt.AnyI64("from"), verifrt.AnyI64("until")
	verifrt.Assume(from > -(1<<62) && from < 1<<62 && until > -(1<<62) && until < 1<<62)
	suffixAtom := verifrt.AnyAtom("suffix")
	suffix := "sfx" + suffixAtom
	signedSuffix := suffix
	switch verifrt.Choose("suffix-mismatch", 3) {
	case 1:
		signedSuffix = "sfx" + verifrt.AnyAtom("other-suffix")
		verifrt.Assume(signedSuffix != suffix)
		want = false
	case 2: // differs in the case of one letter only
		signedSuffix = "sfX" + suffixAtom
		want = false
	}
	d := gen.NewDeactivate(signedSuffix, code, k, from, until)
	d.Request.DidSuffix = suffix
	d.Request.SignedData = resign(m, d.Request.SignedData, k, d.Signed)
	if m == 21 || m == 22 || m == 30 || m == 31 {
		want = false
	}
	want = signedTail(m, &d.Request.RevealValue, &d.Request.DidSuffix, &d.Request.SignedData, k.JWK, false) && want
	buf := gen.JSON(d.Request)
	tv := &recordingTimeValidator{}
	ns := "did:" + verifrt.AnyAtom("method")
	op, err := New(p, WithAnchorTimeValidator(tv)).Parse(ns, buf)
	if err != nil {
		verifrt.Reach("rejected")
		verifrt.Assert(!want, "a deactivate request obeying the configured protocol is accepted")
		return
	}
	verifrt.Reach("accepted")
	verifrt.Assert(want, "deactivate: signed-data rules and signed suffix equal to the request's")
	checkReturned(op, ns, operation.TypeDeactivate, suffix, buf, nil)
	wantUntil := until
	if from != 0 && until == 0 {
		wantUntil = from + int64(p.MaxOperationTimeDelta)
	}
	verifrt.Assert(tv.called && tv.from == from && tv.until == wantUntil, "the time validator receives (from, until | from + MaxOperationTimeDelta)")
}

var _ = model.CreateRequest{}
