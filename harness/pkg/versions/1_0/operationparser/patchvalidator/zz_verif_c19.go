package patchvalidator

import (
	verifrt "github.com/trustbloc/sidetree-go/pkg/internal/verifrt"
	"github.com/trustbloc/sidetree-go/pkg/patch"
)

// anyJSON2: a JSON value of any kind; containers hold one leaf of any kind.
func anyJSON2(tag string) interface{} {
	switch verifrt.Choose(tag+"-shape", 3) {
	case 0:
		return anyJSONLeaf(tag)
	case 1:
		return []interface{}{anyJSONLeaf(tag + "-e")}
	}
	return map[string]interface{}{"k": anyJSONLeaf(tag + "-m")}
}

// Harness_C19_ValidateKeys: add-public-keys / replace with every member of a key of arbitrary JSON kind.
func Harness_C19_ValidateKeys() {
	k := map[string]interface{}{}
	which := verifrt.Choose("wrong-member", 6)
	k["id"], k["type"] = "key1", "JsonWebKey2020"
	k["publicKeyJwk"] = map[string]interface{}{"kty": "EC", "crv": "P-256", "x": "x", "y": "y"}
	switch which {
	case 0:
		k["id"] = anyJSON2("id")
	case 1:
		k["type"] = anyJSON2("type")
	case 2:
		k["purposes"] = anyJSON2("purposes")
	case 3:
		k["publicKeyJwk"] = anyJSON2("jwk")
	case 4:
		delete(k, "publicKeyJwk")
		k["publicKeyBase58"] = anyJSON2("b58")
	case 5:
		j := map[string]interface{}{"kty": "EC", "crv": "P-256", "x": "x", "n": "n", "e": "e"}
		if verifrt.Choose("rsa", 2) == 1 {
			j["kty"] = "RSA"
		}
		j[[]string{"kty", "crv", "x", "n", "e"}[verifrt.Choose("jwk-member", 5)]] = anyJSONLeaf("jwk-leaf")
		k["publicKeyJwk"] = j
	}
	var entry interface{} = k
	if verifrt.Choose("entry-kind", 3) == 1 {
		entry = anyJSONLeaf("entry")
	}
	var list interface{} = []interface{}{entry}
	if verifrt.Choose("list-kind", 3) == 1 {
		list = anyJSONLeaf("list")
	}
	if verifrt.Choose("action", 2) == 0 {
		_ = Validate(patch.Patch{patch.ActionKey: patch.AddPublicKeys, patch.PublicKeys: list})
	} else {
		_ = Validate(patch.Patch{patch.ActionKey: patch.Replace, patch.DocumentKey: map[string]interface{}{"publicKeys": list}})
	}
	verifrt.Reach("answered")
}

// Harness_C19_ValidateServices: add-services / replace with every member of a service (and every entry of an
// endpoint list) of arbitrary JSON kind.
func Harness_C19_ValidateServices() {
	s := map[string]interface{}{"id": "svc1", "type": "t", "serviceEndpoint": "https://example.com/"}
	switch verifrt.Choose("wrong-member", 4) {
	case 0:
		s["id"] = anyJSON2("id")
	case 1:
		s["type"] = anyJSON2("type")
	case 2:
		s["serviceEndpoint"] = anyJSON2("endpoint")
	case 3:
		s["serviceEndpoint"] = []interface{}{"https://example.com/a", anyJSONLeaf("entry1"), anyJSONLeaf("entry2")}
	}
	var entry interface{} = s
	if verifrt.Choose("entry-kind", 3) == 1 {
		entry = anyJSONLeaf("entry")
	}
	var list interface{} = []interface{}{entry}
	if verifrt.Choose("list-kind", 3) == 1 {
		list = anyJSONLeaf("list")
	}
	if verifrt.Choose("action", 2) == 0 {
		_ = Validate(patch.Patch{patch.ActionKey: patch.AddServiceEndpoints, patch.ServicesKey: list})
	} else {
		_ = Validate(patch.Patch{patch.ActionKey: patch.Replace, patch.DocumentKey: map[string]interface{}{"services": list}})
	}
	verifrt.Reach("answered")
}

// Harness_C19_ValidateLists: remove-* / also-known-as / ietf-json-patch / unknown action with values of arbitrary kind.
func Harness_C19_ValidateLists() {
	actions := []interface{}{patch.RemovePublicKeys, patch.RemoveServiceEndpoints, patch.AddAlsoKnownAs, patch.RemoveAlsoKnownAs, patch.JSONPatch, patch.Replace, "frobnicate", 7.0, nil}
	a := actions[verifrt.Choose("action", len(actions))]
	p := patch.Patch{}
	if verifrt.Choose("has-action", 4) != 0 {
		p[patch.ActionKey] = a
	}
	v := anyJSON2("value")
	for _, key := range []patch.Key{patch.IdsKey, patch.UrisKey, patch.PatchesKey, patch.DocumentKey} {
		p[key] = v
	}
	_ = Validate(p)
	verifrt.Reach("answered")
}
