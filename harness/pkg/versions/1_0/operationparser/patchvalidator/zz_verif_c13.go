package patchvalidator

import (
	verifrt "github.com/trustbloc/sidetree-go/pkg/internal/verifrt"
	"github.com/trustbloc/sidetree-go/pkg/patch"
)

// ---------------------------------------------------------------------------------------------
// Reference predicate, transcribed from the property statement (C13).

func refIDValid(v interface{}) bool {
	s, ok := v.(string)
	if !ok {
		return false
	}
	if len(s) < 1 || len(s) > 50 {
		return false
	}
	ok = true
	for i := 0; i < len(s); i++ {
		c := s[i]
		ok = verifrt.And(ok, verifrt.Or(verifrt.InRange(c, 'A', 'Z'), verifrt.InRange(c, 'a', 'z'), verifrt.InRange(c, '0', '9'), c == '_', c == '-'))
	}
	return ok
}

var refVerificationTypes = []string{"Bls12381G2Key2020", "JsonWebKey2020", "EcdsaSecp256k1VerificationKey2019", "Ed25519VerificationKey2018", "Ed25519VerificationKey2020"}
var refAgreementTypes = []string{"Bls12381G2Key2020", "JsonWebKey2020", "EcdsaSecp256k1VerificationKey2019", "X25519KeyAgreementKey2019"}
var refGeneralTypes = []string{"Bls12381G2Key2020", "JsonWebKey2020", "EcdsaSecp256k1VerificationKey2019", "Ed25519VerificationKey2018", "Ed25519VerificationKey2020", "X25519KeyAgreementKey2019"}

func refIn(list []string, s string) bool {
	for _, x := range list {
		if x == s {
			return true
		}
	}
	return false
}

func refStr(v interface{}) string {
	s, _ := v.(string)
	return s
}

func refJWKValid(v interface{}) bool {
	m, ok := v.(map[string]interface{})
	if !ok {
		return false
	}
	if refStr(m["kty"]) == "" {
		return false
	}
	if refStr(m["kty"]) == "RSA" {
		return refStr(m["n"]) != "" && refStr(m["e"]) != ""
	}
	return refStr(m["crv"]) != "" && refStr(m["x"]) != ""
}

// refKeyValid: one key entry (ids compared for uniqueness elsewhere).
func refKeyValid(k map[string]interface{}) bool {
	for name := range k {
		if name != "id" && name != "type" && name != "purposes" && name != "publicKeyJwk" && name != "publicKeyBase58" {
			return false
		}
	}
	idv, hasID := k["id"]
	tv, hasType := k["type"]
	if !hasID || !hasType || !refIDValid(idv) {
		return false
	}
	typ := refStr(tv)
	jwk, hasJWK := k["publicKeyJwk"]
	b58, hasB58 := k["publicKeyBase58"]
	if hasJWK == hasB58 {
		return false
	}
	pv, hasP := k["purposes"]
	if hasP {
		list, ok := pv.([]interface{})
		if !ok || len(list) == 0 || len(list) > 5 {
			return false
		}
		for _, e := range list {
			p := refStr(e)
			switch p {
			case "authentication", "assertionMethod", "capabilityDelegation", "capabilityInvocation":
				if !refIn(refVerificationTypes, typ) {
					return false
				}
			case "keyAgreement":
				if !refIn(refAgreementTypes, typ) {
					return false
				}
			default:
				return false
			}
		}
	} else if !refIn(refGeneralTypes, typ) {
		return false
	}
	if hasJWK {
		return refJWKValid(jwk)
	}
	return refStr(b58) != "" && typ != "JsonWebKey2020"
}

// ---------------------------------------------------------------------------------------------
// Generators

var knownTypes = []string{"Bls12381G2Key2020", "JsonWebKey2020", "EcdsaSecp256k1VerificationKey2019", "X25519KeyAgreementKey2019", "Ed25519VerificationKey2018", "Ed25519VerificationKey2020"}
var knownPurposes = []string{"authentication", "assertionMethod", "keyAgreement", "capabilityDelegation", "capabilityInvocation"}

func validJWK() map[string]interface{} {
	return map[string]interface{}{"kty": "EC", "crv": "P-256", "x": verifrt.AnyAtom("x"), "y": verifrt.AnyAtom("y")}
}

// anyType: every known type, or any other string of one of their lengths, or a non-string / absent.
func putAnyType(k map[string]interface{}) {
	switch c := verifrt.Choose("type-shape", 9); {
	case c < 6:
		k["type"] = knownTypes[c]
	case c == 6:
		k["type"] = verifrt.AnyStr("type", []int{0, 3, 14, 17, 25, 26, 33}[verifrt.Choose("type-len", 7)])
	case c == 7:
		k["type"] = 7.0
	}
}

func anyPurpose(tag string) interface{} {
	c := verifrt.Choose(tag, 6)
	if c < 5 {
		return knownPurposes[c]
	}
	return verifrt.AnyStr(tag+"-s", []int{0, 12, 14, 15, 20}[verifrt.Choose(tag+"-len", 5)])
}

func putAnyPurposes(k map[string]interface{}) {
	switch verifrt.Choose("purposes-shape", 10) {
	case 7: // an entry that is not a string
		k["purposes"] = []interface{}{anyPurpose("p0"), []interface{}{nil, 7.0, true, map[string]interface{}{}}[verifrt.Choose("odd-purpose", 4)]}
	case 8: // five known purposes and a sixth entry that is not a string
		k["purposes"] = []interface{}{"authentication", "assertionMethod", "capabilityDelegation", "capabilityInvocation", "authentication", 7.0}
	case 9:
		k["purposes"] = []interface{}{7.0}
	case 0: // absent
	case 1:
		k["purposes"] = "authentication" // wrong kind
	case 2:
		k["purposes"] = []interface{}{}
	case 3:
		k["purposes"] = []interface{}{anyPurpose("p0")}
	case 4:
		k["purposes"] = []interface{}{anyPurpose("p0"), anyPurpose("p1")}
	case 5:
		k["purposes"] = []interface{}{"authentication", "assertionMethod", "capabilityDelegation", "capabilityInvocation", anyPurpose("p4")}
	case 6:
		k["purposes"] = []interface{}{"authentication", "assertionMethod", "capabilityDelegation", "capabilityInvocation", "authentication", "assertionMethod"}
	}
}

func addKeysPatch(keys ...interface{}) patch.Patch {
	return patch.Patch{patch.ActionKey: patch.AddPublicKeys, patch.PublicKeys: keys}
}

// Harness_C13_KeyTypePurpose: every key type x purpose-list shape; id and material valid.
func Harness_C13_KeyTypePurpose() {
	k := map[string]interface{}{"id": "key1", "publicKeyJwk": validJWK()}
	putAnyType(k)
	putAnyPurposes(k)
	got := Validate(addKeysPatch(k)) == nil
	want := refKeyValid(k)
	if got {
		verifrt.Reach("accepted")
	} else {
		verifrt.Reach("rejected")
	}
	verifrt.Assert(got == want, "add-public-keys: accepted iff type/purposes meet the documented constraints")
}

// Harness_C13_KeyID: id of every length 0..51 with arbitrary bytes, absent, or not a string.
func Harness_C13_KeyID() {
	k := map[string]interface{}{"type": "JsonWebKey2020", "publicKeyJwk": validJWK()}
	switch c := verifrt.Choose("id-shape", 54); {
	case c <= 51:
		k["id"] = verifrt.AnyStr("id", c)
	case c == 52:
		k["id"] = 5.0
	}
	got := Validate(addKeysPatch(k)) == nil
	if got {
		verifrt.Reach("accepted")
	} else {
		verifrt.Reach("rejected")
	}
	verifrt.Assert(got == refKeyValid(k), "add-public-keys: key id is 1-50 characters of [A-Za-z0-9_-]")
	// the same id rule applies to ids in remove lists and to service ids
	if id, ok := k["id"].(string); ok {
		rm := patch.Patch{patch.ActionKey: patch.RemovePublicKeys, patch.IdsKey: []interface{}{"ok1", id}}
		verifrt.Assert((Validate(rm) == nil) == refIDValid(id), "remove-public-keys: every id is 1-50 characters of [A-Za-z0-9_-]")
		rs := patch.Patch{patch.ActionKey: patch.RemoveServiceEndpoints, patch.IdsKey: []interface{}{id, "ok1"}}
		verifrt.Assert((Validate(rs) == nil) == refIDValid(id), "remove-services: every id is 1-50 characters of [A-Za-z0-9_-]")
		svc := map[string]interface{}{"id": id, "type": "t", "serviceEndpoint": "https://example.com/a"}
		as := patch.Patch{patch.ActionKey: patch.AddServiceEndpoints, patch.ServicesKey: []interface{}{svc}}
		verifrt.Assert((Validate(as) == nil) == refIDValid(id), "add-services: service id is 1-50 characters of [A-Za-z0-9_-]")
	}
}

func anyJSONLeaf(tag string) interface{} {
	switch verifrt.Choose(tag+"-kind", 6) {
	case 0:
		return nil
	case 1:
		return verifrt.AnyBool(tag + "-b")
	case 2:
		return 1.5
	case 3:
		return verifrt.AnyStr(tag+"-s", verifrt.Choose(tag+"-len", 3))
	case 4:
		return []interface{}{}
	}
	return map[string]interface{}{}
}

// Harness_C13_KeyMaterial: JWK / base58 presence, kinds and contents; extra and missing members; key types that need a JWK.
func Harness_C13_KeyMaterial() {
	k := map[string]interface{}{"id": "key1"}
	k["type"] = []string{"JsonWebKey2020", "Ed25519VerificationKey2018", "EcdsaSecp256k1VerificationKey2019"}[verifrt.Choose("type", 3)]
	switch verifrt.Choose("jwk-shape", 6) {
	case 0:
	case 1:
		k["publicKeyJwk"] = validJWK()
	case 2:
		k["publicKeyJwk"] = anyJSONLeaf("jwk")
	case 3: // EC/OKP style with each member of arbitrary kind
		k["publicKeyJwk"] = map[string]interface{}{"kty": anyJSONLeaf("kty"), "crv": anyJSONLeaf("crv"), "x": anyJSONLeaf("x")}
	case 4: // RSA
		m := map[string]interface{}{"kty": "RSA"}
		if verifrt.AnyBool("has-n") {
			m["n"] = anyJSONLeaf("n")
		}
		if verifrt.AnyBool("has-e") {
			m["e"] = anyJSONLeaf("e")
		}
		k["publicKeyJwk"] = m
	case 5: // missing members
		m := map[string]interface{}{"kty": "EC"}
		if verifrt.AnyBool("has-crv") {
			m["crv"] = "P-256"
		}
		if verifrt.AnyBool("has-x") {
			m["x"] = "abc"
		}
		k["publicKeyJwk"] = m
	}
	switch verifrt.Choose("b58-shape", 3) {
	case 0:
	case 1:
		k["publicKeyBase58"] = anyJSONLeaf("b58")
	case 2:
		k["publicKeyBase58"] = verifrt.AnyAtom("b58")
	}
	if verifrt.Choose("extra", 2) == 1 {
		k[verifrt.AnyStr("extra-name", 2+verifrt.Choose("extra-len", 2)*8)] = "v"
	}
	got := Validate(addKeysPatch(k)) == nil
	if got {
		verifrt.Reach("accepted")
	} else {
		verifrt.Reach("rejected")
	}
	verifrt.Assert(got == refKeyValid(k), "add-public-keys: exactly one of JWK/base58, well-formed JWK where required, no unknown members")
}

// Harness_C13_KeyUniqueness: ids unique within a patch (add-public-keys and replace).
func Harness_C13_KeyUniqueness() {
	n := 1 + verifrt.Choose("id-len", 2)
	a, b := verifrt.AnyStr("ida", n), verifrt.AnyStr("idb", n)
	k1 := map[string]interface{}{"id": a, "type": "JsonWebKey2020", "publicKeyJwk": validJWK()}
	k2 := map[string]interface{}{"id": b, "type": "JsonWebKey2020", "publicKeyJwk": validJWK()}
	want := refKeyValid(k1) && refKeyValid(k2) && a != b
	got := Validate(addKeysPatch(k1, k2)) == nil
	if got {
		verifrt.Reach("accepted")
	} else {
		verifrt.Reach("rejected")
	}
	verifrt.Assert(got == want, "add-public-keys: key ids are valid and unique within the patch")
	rp := patch.Patch{patch.ActionKey: patch.Replace, patch.DocumentKey: map[string]interface{}{"publicKeys": []interface{}{k1, k2}}}
	verifrt.Assert((Validate(rp) == nil) == want, "replace: key ids are valid and unique within the document")
}
