package patchvalidator

import (
	verifrt "github.com/trustbloc/sidetree-go/pkg/internal/verifrt"
	"github.com/trustbloc/sidetree-go/pkg/patch"
)

// uriKind: a URI string that is valid / empty / not a valid URI for url.ParseRequestURI.
// Validity of concrete literals is decided by the real net/url (C13 is stated relative to it).
func anyURI(tag string) (string, bool) {
	switch verifrt.Choose(tag, 4) {
	case 0:
		return "https://example.com/" + verifrt.AnyAtom(tag+"-path"), true
	case 1:
		return "", false
	case 2:
		return "::not a uri", false
	}
	return "did:example:123", true
}

// refEndpointValid: present, and every URI string in it (itself, or every string entry of a list) is a non-empty valid URI.
func anyEndpoint(svc map[string]interface{}) bool {
	switch verifrt.Choose("endpoint-shape", 7) {
	case 0: // absent
		return false
	case 1: // explicit null
		svc["serviceEndpoint"] = nil
		return false
	case 2:
		u, ok := anyURI("u")
		svc["serviceEndpoint"] = u
		return ok
	case 3: // list of strings and non-strings
		n := verifrt.Choose("n", 4)
		list := []interface{}{}
		valid := true
		for i := 0; i < n; i++ {
			tag := string(rune('a' + i))
			if verifrt.Choose("entry-kind-"+tag, 2) == 0 {
				u, ok := anyURI("e" + tag)
				list = append(list, u)
				valid = valid && ok
			} else {
				list = append(list, map[string]interface{}{"uri": "x"})
			}
		}
		svc["serviceEndpoint"] = list
		return valid
	case 4: // typed string list (as produced by programmatic callers)
		u1, ok1 := anyURI("t1")
		u2, ok2 := anyURI("t2")
		svc["serviceEndpoint"] = []string{u1, u2}
		return ok1 && ok2
	case 5: // object
		svc["serviceEndpoint"] = map[string]interface{}{"uri": "https://example.com"}
		return true
	}
	svc["serviceEndpoint"] = 7.0
	return true
}

// Harness_C13_Service: service id / type length / endpoint forms.
func Harness_C13_Service() {
	svc := map[string]interface{}{"id": "svc1"}
	typeOK := true
	switch c := verifrt.Choose("type-shape", 5); c {
	case 0: // absent
		typeOK = false
	case 1:
		svc["type"] = 5.0
		typeOK = false
	default:
		n := []int{0, 30, 31}[c-2]
		svc["type"] = verifrt.AnyStr("type", n)
		typeOK = n >= 1 && n <= 30
	}
	endpointOK := anyEndpoint(svc)
	extra := verifrt.Choose("extra", 2) == 1
	if extra {
		svc["priority"] = 1.0 // services may carry further members
	}
	p := patch.Patch{patch.ActionKey: patch.AddServiceEndpoints, patch.ServicesKey: []interface{}{svc}}
	got := Validate(p) == nil
	if got {
		verifrt.Reach("accepted")
	} else {
		verifrt.Reach("rejected")
	}
	verifrt.Assert(got == (typeOK && endpointOK), "add-services: type 1-30 characters and endpoint present with only non-empty valid URI strings")
	rp := patch.Patch{patch.ActionKey: patch.Replace, patch.DocumentKey: map[string]interface{}{"services": []interface{}{svc}}}
	verifrt.Assert((Validate(rp) == nil) == (typeOK && endpointOK), "replace: services obey the same rules")
}

// Harness_C13_ServiceUniqueness: service ids unique within a patch.
func Harness_C13_ServiceUniqueness() {
	n := 1 + verifrt.Choose("id-len", 2)
	a, b := verifrt.AnyStr("ida", n), verifrt.AnyStr("idb", n)
	s1 := map[string]interface{}{"id": a, "type": "t", "serviceEndpoint": "https://example.com/1"}
	s2 := map[string]interface{}{"id": b, "type": "t", "serviceEndpoint": "https://example.com/2"}
	want := verifrt.And(refIDValid(a), refIDValid(b), a != b)
	p := patch.Patch{patch.ActionKey: patch.AddServiceEndpoints, patch.ServicesKey: []interface{}{s1, s2}}
	got := Validate(p) == nil
	if got {
		verifrt.Reach("accepted")
	} else {
		verifrt.Reach("rejected")
	}
	verifrt.Assert(got == want, "add-services: service ids are valid and unique within the patch")
}

// Harness_C13_AlsoKnownAs: URIs parse and are unique; lists non-empty.
func Harness_C13_AlsoKnownAs() {
	action := []patch.Action{patch.AddAlsoKnownAs, patch.RemoveAlsoKnownAs}[verifrt.Choose("action", 2)]
	n := verifrt.Choose("n", 4)
	uris := []interface{}{}
	want := n > 0
	strs := []string{}
	for i := 0; i < n; i++ {
		tag := string(rune('a' + i))
		var u string
		switch verifrt.Choose("uri-"+tag, 6) {
		case 4: // a valid URI that is not in the form url.URL.String() would print (upper-case scheme)
			u = "HTTPS://abc.example/p"
		case 5: // ... (empty fragment)
			u = "https://abc.example/profile#"
		case 3: // an entry that is not a string
			uris = append(uris, 7.0)
			want = false
			continue
		case 0:
			u = "https://example.com/" + verifrt.AnyAtom("p"+tag)
		case 1:
			u = "::bad uri" // url.Parse fails (missing protocol scheme)
			want = false
		case 2:
			u = "did:example:abc"
		}
		for _, prev := range strs {
			if prev == u {
				want = false
			}
		}
		strs = append(strs, u)
		uris = append(uris, u)
	}
	p := patch.Patch{patch.ActionKey: action, patch.UrisKey: uris}
	got := Validate(p) == nil
	if got {
		verifrt.Reach("accepted")
	} else {
		verifrt.Reach("rejected")
	}
	verifrt.Assert(got == want, "also-known-as: non-empty list of parseable, unique URIs")
}

// Harness_C13_RemoveLists: remove lists are non-empty arrays and every id is valid.
func Harness_C13_RemoveLists() {
	action := []patch.Action{patch.RemovePublicKeys, patch.RemoveServiceEndpoints}[verifrt.Choose("action", 2)]
	var val interface{}
	want := true
	switch c := verifrt.Choose("shape", 7); c {
	case 6: // a valid id and an entry that is not a string
		val = []interface{}{"key1", []interface{}{nil, 7.0, map[string]interface{}{}}[verifrt.Choose("odd-id", 3)]}
		want = false
	case 0:
		val = []interface{}{}
		want = false
	case 1:
		val = "key1"
		want = false
	case 2:
		val = map[string]interface{}{}
		want = false
	default:
		n := c - 2
		list := []interface{}{}
		for i := 0; i < n; i++ {
			id := verifrt.AnyStr("id"+string(rune('0'+i)), 1+verifrt.Choose("len"+string(rune('0'+i)), 2))
			want = verifrt.And(want, refIDValid(id))
			list = append(list, id)
		}
		val = list
	}
	p := patch.Patch{patch.ActionKey: action, patch.IdsKey: val}
	got := Validate(p) == nil
	if got {
		verifrt.Reach("accepted")
	} else {
		verifrt.Reach("rejected")
	}
	verifrt.Assert(got == want, "remove lists are non-empty and contain only valid ids")
}

// Harness_C13_ReplaceMembers: a replace document has only publicKeys and services members.
func Harness_C13_ReplaceMembers() {
	doc := map[string]interface{}{}
	want := true
	if verifrt.AnyBool("has-keys") {
		doc["publicKeys"] = []interface{}{map[string]interface{}{"id": "k1", "type": "JsonWebKey2020", "publicKeyJwk": validJWK()}}
	}
	if verifrt.AnyBool("has-services") {
		doc["services"] = []interface{}{map[string]interface{}{"id": "s1", "type": "t", "serviceEndpoint": "https://example.com/"}}
	}
	if verifrt.Choose("extra", 2) == 1 {
		name := verifrt.AnyStr("extra-name", []int{2, 8, 10}[verifrt.Choose("extra-len", 3)])
		verifrt.Assume(name != "publicKeys" && name != "services")
		doc[name] = "v"
		want = false
	}
	var dv interface{} = doc
	if verifrt.Choose("doc-kind", 3) == 1 {
		dv = []interface{}{doc}
		want = false
	}
	p := patch.Patch{patch.ActionKey: patch.Replace, patch.DocumentKey: dv}
	got := Validate(p) == nil
	if got {
		verifrt.Reach("accepted")
	} else {
		verifrt.Reach("rejected")
	}
	verifrt.Assert(got == want, "replace: document is an object with only publicKeys and services members")
}
