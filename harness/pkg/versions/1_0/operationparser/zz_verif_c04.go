package operationparser

import (
	"github.com/trustbloc/sidetree-go/pkg/commitment"
	gen "github.com/trustbloc/sidetree-go/pkg/internal/verifgen"
	verifrt "github.com/trustbloc/sidetree-go/pkg/internal/verifrt"
	"github.com/trustbloc/sidetree-go/pkg/jws"
)

// c04Member: an opaque member value, as it is or with characters a "helpful" normalisation might drop or fold (base64
// padding, surrounding blanks, upper case): a key is hashed exactly as given.
func c04Member(tag string) string {
	a := verifrt.AnyAtom(tag)
	if tag != "k-x" {
		return a // the forms are varied on one key only
	}
	switch verifrt.Choose(tag+"-form", 4) {
	case 1:
		return a + "="
	case 2:
		return " " + a + " "
	case 3:
		return "AB" + a
	}
	return a
}

func anyJWK(tag string) *jws.JWK {
	k := &jws.JWK{Kty: verifrt.AnyAtom(tag + "-kty"), Crv: verifrt.AnyAtom(tag + "-crv"), X: c04Member(tag + "-x")}
	if verifrt.Choose(tag+"-has-y", 2) == 1 {
		k.Y = verifrt.AnyAtom(tag + "-y")
	}
	if verifrt.Choose(tag+"-has-nonce", 2) == 1 {
		k.Nonce = verifrt.AnyAtom(tag + "-nonce")
	}
	if verifrt.Choose(tag+"-rsa", 2) == 1 {
		k.N, k.E = verifrt.AnyAtom(tag+"-n"), verifrt.AnyAtom(tag+"-e")
	}
	return k
}

func sameJWK(a, b *jws.JWK) bool {
	return verifrt.And(a.Kty == b.Kty, a.Crv == b.Crv, a.X == b.X, a.Y == b.Y, a.N == b.N, a.E == b.E, a.Nonce == b.Nonce)
}

// Harness_C04_Algebra: reveal value / commitment identities for every key member pattern and code.
func Harness_C04_Algebra() {
	k, k2 := anyJWK("k"), anyJWK("k2")
	code := verifrt.AnyUint("code")
	rv, err1 := commitment.GetRevealValue(k, code)
	cm, err2 := commitment.GetCommitment(k, code)
	if code != gen.SHA256 && code != gen.SHA512 {
		verifrt.Reach("unsupported-code")
		verifrt.Assert(err1 != nil && err2 != nil, "unsupported hash codes are an error")
		return
	}
	verifrt.Reach("supported-code")
	if err1 != nil || err2 != nil {
		verifrt.Fail("reveal value / commitment of a key fail")
		return
	}
	verifrt.Assert(rv == gen.ModelHash(k, code), "reveal value = multihash of the canonicalized JWK")
	derived, err3 := commitment.GetCommitmentFromRevealValue(rv)
	verifrt.Assert(err3 == nil && derived == cm, "the commitment derived from a reveal value is that key's commitment")
	verifrt.Assert(rv != cm, "commitment (hash of hash) differs from the reveal value")
	cm2, err4 := commitment.GetCommitment(k2, code)
	verifrt.Assert(err4 == nil && (cm == cm2) == sameJWK(k, k2), "keys that differ in any member (including only the nonce) have different commitments")
}

// Harness_C04_Chain: the reveal value the parser reports for an operation maps to the commitment it reports for
// the operation preceding it on the same chain; deactivate reports no next commitment.
func Harness_C04_Chain() {
	code := []uint{gen.SHA256, gen.SHA512}[verifrt.Choose("alg", 2)]
	p := gen.Protocol("p", false)
	// the chain's algorithm is the only configured one, or one of two in either order
	p.MultihashAlgorithms = [][]uint{{code}, {gen.SHA256, gen.SHA512}, {gen.SHA512, gen.SHA256}}[verifrt.Choose("configured", 3)]
	parser := New(p)
	upd1, rec1 := gen.NewSigner("upd1"), gen.NewSigner("rec1")
	suffix := "sfx" + verifrt.AnyAtom("suffix")
	// predecessor: an update (reports next update commitment) or a recover (reports next recovery commitment)
	switch verifrt.Choose("chain", 4) {
	case 0: // update -> update
		u1 := gen.NewUpdate(suffix, code, gen.NewSigner("upd0"), upd1.JWK, 0, 0, gen.KeyPatch("a"))
		u2 := gen.NewUpdate(suffix, code, upd1, gen.Key("upd2"), 0, 0, gen.KeyPatch("b"))
		linkCheck(parser, gen.JSON(u1.Request), gen.JSON(u2.Request))
	case 1: // recover -> recover
		rec0 := gen.NewSigner("rec0")
		verifrt.Assume(rec0.JWK.X != rec1.JWK.X || rec0.JWK.Y != rec1.JWK.Y) // a new key pair at every step
		r1 := gen.NewRecover(suffix, code, rec0, rec1.JWK, gen.Key("u"), 0, 0, gen.KeyPatch("a"))
		r2 := gen.NewRecover(suffix, code, rec1, gen.Key("rec2"), gen.Key("u2"), 0, 0, gen.KeyPatch("b"))
		linkCheck(parser, gen.JSON(r1.Request), gen.JSON(r2.Request))
	case 2: // recover -> deactivate
		rec0 := gen.NewSigner("rec0")
		verifrt.Assume(rec0.JWK.X != rec1.JWK.X || rec0.JWK.Y != rec1.JWK.Y)
		r1 := gen.NewRecover(suffix, code, rec0, rec1.JWK, gen.Key("u"), 0, 0, gen.KeyPatch("a"))
		d := gen.NewDeactivate(suffix, code, rec1, 0, 0)
		linkCheck(parser, gen.JSON(r1.Request), gen.JSON(d.Request))
		c, err := parser.GetCommitment(gen.JSON(d.Request))
		verifrt.Assert(err == nil && c == "", "deactivate reports no next commitment")
	case 3: // create has no reveal value
		cr := gen.NewCreate("c", code, gen.KeyPatch("a"))
		_, err := parser.GetRevealValue(gen.JSON(cr.Request))
		verifrt.Reach("linked")
		verifrt.Assert(err != nil, "create has no reveal value")
	}
}

func linkCheck(parser *Parser, prev, next []byte) {
	c, err := parser.GetCommitment(prev)
	rv, err2 := parser.GetRevealValue(next)
	if err != nil || err2 != nil {
		if err != nil {
			verifrt.Observe("err", err.Error())
		}
		if err2 != nil {
			verifrt.Observe("err2", err2.Error())
		}
		verifrt.Fail("parser fails on a well-formed chain")
		return
	}
	verifrt.Reach("linked")
	derived, err3 := commitment.GetCommitmentFromRevealValue(rv)
	verifrt.Assert(err3 == nil && derived == c, "reveal value of an operation maps to the commitment reported for its predecessor")
}
