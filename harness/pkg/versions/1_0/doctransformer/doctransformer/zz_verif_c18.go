package doctransformer

import (
	"github.com/trustbloc/sidetree-go/pkg/api/operation"
	"github.com/trustbloc/sidetree-go/pkg/api/protocol"
	"github.com/trustbloc/sidetree-go/pkg/document"
	verifrt "github.com/trustbloc/sidetree-go/pkg/internal/verifrt"
	"github.com/trustbloc/sidetree-go/pkg/versions/1_0/doctransformer/metadata"
)

// Harness_C18_GenericTransformerOptions: the generic document transformer with every combination of its two options:
// the document is the internal one with the given id, the metadata lists published operations exactly when that option
// is on and unpublished operations exactly when the other one is on, and reports the commitments as given.
func Harness_C18_GenericTransformerOptions() {
	incPub, incUnpub := verifrt.AnyBool("include-published"), verifrt.AnyBool("include-unpublished")
	pub := &operation.AnchoredOperation{Type: operation.TypeCreate, TransactionTime: verifrt.AnyU64("p-time"), TransactionNumber: verifrt.AnyU64("p-num"), CanonicalReference: verifrt.AnyAtom("p-ref")}
	unpub := &operation.AnchoredOperation{Type: operation.TypeUpdate, TransactionTime: verifrt.AnyU64("u-time")}
	member := verifrt.AnyAtom("member")
	rm := &protocol.ResolutionModel{Doc: document.Document{"name": member}, RecoveryCommitment: verifrt.AnyAtom("rc"), UpdateCommitment: verifrt.AnyAtom("uc"),
		PublishedOperations: []*operation.AnchoredOperation{pub}, UnpublishedOperations: []*operation.AnchoredOperation{unpub}}
	id := "did:method:" + verifrt.AnyAtom("suffix")
	info := protocol.TransformationInfo{document.IDProperty: id, document.PublishedProperty: verifrt.AnyBool("published")}
	res, err := New(WithIncludePublishedOperations(incPub), WithIncludeUnpublishedOperations(incUnpub)).TransformDocument(rm, info)
	if err != nil {
		verifrt.Fail("transformation of a well-formed state fails")
		return
	}
	verifrt.Reach("transformed")
	verifrt.Assert(res.Document.ID() == id && res.Document["name"] == member, "the document is the internal document with the given id")
	method, _ := res.DocumentMetadata[document.MethodProperty].(document.Metadata)
	pubs, hasPub := method[document.PublishedOperationsProperty].([]*metadata.PublishedOperation)
	unpubs, hasUnpub := method[document.UnpublishedOperationsProperty].([]*metadata.UnpublishedOperation)
	verifrt.Assert(hasPub == incPub && (!hasPub || (len(pubs) == 1 && pubs[0].CanonicalReference == pub.CanonicalReference)), "published operations are listed exactly when that option is on")
	verifrt.Assert(hasUnpub == incUnpub && (!hasUnpub || (len(unpubs) == 1 && unpubs[0].TransactionTime == unpub.TransactionTime)), "unpublished operations are listed exactly when that option is on")
	verifrt.Assert(method[document.RecoveryCommitmentProperty] == rm.RecoveryCommitment && method[document.UpdateCommitmentProperty] == rm.UpdateCommitment, "commitments are reported as given")
}
