package metadata

import (
	"github.com/trustbloc/sidetree-go/pkg/api/operation"
	"github.com/trustbloc/sidetree-go/pkg/api/protocol"
	"github.com/trustbloc/sidetree-go/pkg/document"
	verifrt "github.com/trustbloc/sidetree-go/pkg/internal/verifrt"
)

func anyOps(tag string, n int) []*operation.AnchoredOperation {
	ops := make([]*operation.AnchoredOperation, n)
	for i := range ops {
		s := tag + string(rune('0'+i))
		ops[i] = &operation.AnchoredOperation{
			Type:               operation.TypeUpdate,
			TransactionTime:    verifrt.AnyU64(s + "_time"),
			TransactionNumber:  verifrt.AnyU64(s + "_num"),
			ProtocolVersion:    verifrt.AnyU64(s + "_ver"),
			CanonicalReference: verifrt.AnyAtom(s + "_ref"),
		}
	}
	return ops
}

func lexLE(t1, n1, t2, n2 uint64) bool { return t1 < t2 || (t1 == t2 && n1 <= n2) }

// Harness_C18_OperationOrder: published and unpublished operation lists in the metadata are in
// anchoring order (time, then number), published ones de-duplicated by canonical reference.
func Harness_C18_OperationOrder() {
	np := verifrt.Choose("published", 3) + 1
	nu := verifrt.Choose("unpublished", 3) + 1
	pub := anyOps("p", np)
	unpub := anyOps("u", nu)
	rm := &protocol.ResolutionModel{Doc: make(document.Document), PublishedOperations: pub, UnpublishedOperations: unpub,
		CreatedTime: verifrt.AnyU64("created"), VersionID: "v"}
	info := protocol.TransformationInfo{document.PublishedProperty: true}
	md, err := New(WithIncludePublishedOperations(true), WithIncludeUnpublishedOperations(true)).CreateDocumentMetadata(rm, info)
	if err != nil {
		verifrt.Fail("metadata creation fails on a well-formed state")
		return
	}
	verifrt.Reach("metadata")
	method := md[document.MethodProperty].(document.Metadata)
	got := method[document.PublishedOperationsProperty].([]*PublishedOperation)
	for i := 0; i+1 < len(got); i++ {
		verifrt.Assert(lexLE(got[i].TransactionTime, got[i].TransactionNumber, got[i+1].TransactionTime, got[i+1].TransactionNumber),
			"published operations are sorted by (transaction time, transaction number)")
	}
	// every input reference appears exactly once
	for _, in := range pub {
		cnt := 0
		for _, g := range got {
			if g.CanonicalReference == in.CanonicalReference {
				cnt++
			}
		}
		verifrt.Assert(cnt == 1, "published operations are de-duplicated by canonical reference and none is lost")
	}
	gotU := method[document.UnpublishedOperationsProperty].([]*UnpublishedOperation)
	verifrt.Assert(len(gotU) == len(unpub), "every unpublished operation is listed")
	for i := 0; i+1 < len(gotU); i++ {
		verifrt.Assert(gotU[i].TransactionTime <= gotU[i+1].TransactionTime, "unpublished operations are sorted by transaction time")
	}
}
