package metadata

import (
	"time"

	"github.com/trustbloc/sidetree-go/pkg/api/operation"
	"github.com/trustbloc/sidetree-go/pkg/api/protocol"
	"github.com/trustbloc/sidetree-go/pkg/document"
	verifrt "github.com/trustbloc/sidetree-go/pkg/internal/verifrt"
)

func anyOps(tag string, n int) []*operation.AnchoredOperation {
	ops := make([]*operation.AnchoredOperation, n)
	for i := range ops {
		s := tag + string(rune('0'+i))
		ops[i] = &operation.AnchoredOperation{
			Type:               operation.TypeUpdate,
			TransactionTime:    verifrt.AnyU64(s + "_time"),
			TransactionNumber:  verifrt.AnyU64(s + "_num"),
			ProtocolVersion:    verifrt.AnyU64(s + "_ver"),
			CanonicalReference: verifrt.AnyAtom(s + "_ref"),
		}
	}
	return ops
}

func lexLE(t1, n1, t2, n2 uint64) bool { return t1 < t2 || (t1 == t2 && n1 <= n2) }

// Harness_C18_OperationOrder: published and unpublished operation lists in the metadata are in
// anchoring order (time, then number), published ones de-duplicated by canonical reference.
func Harness_C18_OperationOrder() {
	np := verifrt.Choose("published", 3) + 1
	nu := verifrt.Choose("unpublished", 3) + 1
	pub := anyOps("p", np)
	unpub := anyOps("u", nu)
	rm := &protocol.ResolutionModel{Doc: make(document.Document), PublishedOperations: pub, UnpublishedOperations: unpub,
		CreatedTime: verifrt.AnyU64("created"), VersionID: "v"}
	info := protocol.TransformationInfo{document.PublishedProperty: true}
	md, err := New(WithIncludePublishedOperations(true), WithIncludeUnpublishedOperations(true)).CreateDocumentMetadata(rm, info)
	if err != nil {
		verifrt.Fail("metadata creation fails on a well-formed state")
		return
	}
	verifrt.Reach("metadata")
	method := md[document.MethodProperty].(document.Metadata)
	got := method[document.PublishedOperationsProperty].([]*PublishedOperation)
	for i := 0; i+1 < len(got); i++ {
		verifrt.Assert(lexLE(got[i].TransactionTime, got[i].TransactionNumber, got[i+1].TransactionTime, got[i+1].TransactionNumber),
			"published operations are sorted by (transaction time, transaction number)")
	}
	// every input reference appears exactly once
	for _, in := range pub {
		cnt := 0
		for _, g := range got {
			if g.CanonicalReference == in.CanonicalReference {
				cnt++
			}
		}
		verifrt.Assert(cnt == 1, "published operations are de-duplicated by canonical reference and none is lost")
	}
	gotU := method[document.UnpublishedOperationsProperty].([]*UnpublishedOperation)
	verifrt.Assert(len(gotU) == len(unpub), "every unpublished operation is listed")
	for i := 0; i+1 < len(gotU); i++ {
		verifrt.Assert(gotU[i].TransactionTime <= gotU[i+1].TransactionTime, "unpublished operations are sorted by transaction time")
	}
}

func c18OptAtom(tag string) string {
	if verifrt.Choose(tag+"-set", 2) == 1 {
		return verifrt.AnyAtom(tag)
	}
	return ""
}

func c18Str(m document.Metadata, key string) (string, bool) {
	v, ok := m[key]
	if !ok {
		return "", false
	}
	s, isStr := v.(string)
	return s, isStr
}

// Harness_C18_MetadataFields: every metadata item is reported as given, for every (created, updated) pair, every
// presence pattern of commitments / anchor origin / version id / canonical and equivalent id, both flags.
func Harness_C18_MetadataFields() {
	created, updated := verifrt.AnyU64("created"), verifrt.AnyU64("updated")
	rm := &protocol.ResolutionModel{Doc: make(document.Document), CreatedTime: created, UpdatedTime: updated,
		RecoveryCommitment: c18OptAtom("rc"), UpdateCommitment: c18OptAtom("uc"), VersionID: c18OptAtom("version"),
		Deactivated: verifrt.AnyBool("deactivated")}
	hasOrigin := verifrt.Choose("origin-set", 2) == 1
	origin := verifrt.AnyAtom("origin")
	if hasOrigin {
		rm.AnchorOrigin = origin
	}
	published := verifrt.AnyBool("published")
	info := protocol.TransformationInfo{document.PublishedProperty: published}
	canonical, equivalent := verifrt.AnyAtom("canonical"), verifrt.AnyAtom("equivalent")
	hasCanonical, hasEquivalent := verifrt.Choose("canonical-set", 2) == 1, verifrt.Choose("equivalent-set", 2) == 1
	if hasCanonical {
		info[document.CanonicalIDProperty] = canonical
	}
	if hasEquivalent {
		info[document.EquivalentIDProperty] = []string{equivalent}
	}
	md, err := New().CreateDocumentMetadata(rm, info)
	if err != nil {
		verifrt.Fail("metadata creation fails on a well-formed state")
		return
	}
	verifrt.Reach("fields")
	method, ok := md[document.MethodProperty].(document.Metadata)
	if !ok {
		verifrt.Fail("method metadata missing")
		return
	}
	nDoc, nMethod := 1, 1
	p, isBool := method[document.PublishedProperty].(bool)
	verifrt.Assert(isBool && p == published, "the published flag is reported as given")
	s, has := c18Str(method, document.RecoveryCommitmentProperty)
	verifrt.Assert(has == (rm.RecoveryCommitment != "") && s == rm.RecoveryCommitment, "the recovery commitment is reported as given")
	if has {
		nMethod++
	}
	s, has = c18Str(method, document.UpdateCommitmentProperty)
	verifrt.Assert(has == (rm.UpdateCommitment != "") && s == rm.UpdateCommitment, "the update commitment is reported as given")
	if has {
		nMethod++
	}
	s, has = c18Str(method, document.AnchorOriginProperty)
	verifrt.Assert(has == hasOrigin && (!has || s == origin), "the anchor origin is reported as given")
	if has {
		nMethod++
	}
	verifrt.Assert(len(method) == nMethod, "method metadata has no further members (operation lists are off by default)")

	d, hasD := md[document.DeactivatedProperty]
	verifrt.Assert(hasD == rm.Deactivated && (!hasD || d == true), "the deactivated flag is reported exactly for deactivated states")
	if hasD {
		nDoc++
	}
	s, has = c18Str(md, document.CanonicalIDProperty)
	verifrt.Assert(has == hasCanonical && (!has || s == canonical), "the canonical id is reported as given")
	if has {
		nDoc++
	}
	eq, hasE := md[document.EquivalentIDProperty].([]string)
	verifrt.Assert(hasE == hasEquivalent && (!hasE || (len(eq) == 1 && eq[0] == equivalent)), "the equivalent ids are reported as given")
	if hasE {
		nDoc++
	}
	s, has = c18Str(md, document.CreatedProperty)
	verifrt.Assert(has == published && (!has || s == time.Unix(int64(created), 0).UTC().Format(time.RFC3339)), "the created time of a published state is reported as given")
	if has {
		nDoc++
	}
	s, has = c18Str(md, document.VersionIDProperty)
	verifrt.Assert(has == (rm.VersionID != "") && s == rm.VersionID, "the version id is reported as given")
	if has {
		nDoc++
	}
	s, has = c18Str(md, document.UpdatedProperty)
	verifrt.Assert(has == (rm.VersionID != "" && updated > 0) && (!has || s == time.Unix(int64(updated), 0).UTC().Format(time.RFC3339)),
		"the updated time of a versioned state is reported as given, whatever its relation to the created time")
	if has {
		nDoc++
	}
	verifrt.Assert(len(md) == nDoc, "document metadata has no further members")
}
