package didtransformer

import (
	"github.com/trustbloc/sidetree-go/pkg/api/protocol"
	"github.com/trustbloc/sidetree-go/pkg/document"
	verifrt "github.com/trustbloc/sidetree-go/pkg/internal/verifrt"
	"github.com/trustbloc/sidetree-go/pkg/patch"
	"github.com/trustbloc/sidetree-go/pkg/versions/1_0/doccomposer"
	"github.com/trustbloc/sidetree-go/pkg/versions/1_0/doctransformer/doctransformer"
	"github.com/trustbloc/sidetree-go/pkg/versions/1_0/operationparser/patchvalidator"
)

// c19Odd: JSON values of every kind and a few nestings.
func c19Odd(tag string) interface{} {
	switch verifrt.Choose(tag, 11) {
	case 0:
		return nil
	case 1:
		return 7.0
	case 2:
		return true
	case 3:
		return "text-" + verifrt.AnyAtom(tag+"-s")
	case 4:
		return []interface{}{}
	case 5:
		return []interface{}{7.0}
	case 6:
		return map[string]interface{}{}
	case 7:
		return map[string]interface{}{"id": 7.0, "type": nil}
	case 8:
		return []interface{}{map[string]interface{}{"id": 7.0}}
	case 9:
		return []interface{}{[]interface{}{"x"}, nil}
	}
	return []interface{}{"https://aka.example/" + verifrt.AnyAtom(tag+"-u")}
}

// Harness_C19_TransformAssembled: a document assembled by the composer from validated patches - a replace patch with
// one key and one service followed by an ietf-json-patch that adds or replaces a further top-level member (names the
// transformers look at, and an ordinary one) with a JSON value of any kind - is transformed without a panic, with
// every transformer option combination.
func Harness_C19_TransformAssembled() {
	key := map[string]interface{}{"id": "key1", "type": jsonWebKey2020, "purposes": []interface{}{"authentication"},
		"publicKeyJwk": map[string]interface{}{"kty": "EC", "crv": "P-256", "x": verifrt.AnyAtom("x"), "y": verifrt.AnyAtom("y")}}
	svc := map[string]interface{}{"id": "svc1", "type": "t", "serviceEndpoint": "https://example.com/" + verifrt.AnyAtom("ep")}
	replace := patch.Patch{patch.ActionKey: patch.Replace, patch.DocumentKey: map[string]interface{}{"publicKeys": []interface{}{key}, "services": []interface{}{svc}}}
	member := []string{"alsoKnownAs", "@context", "id", "verificationMethod", "authentication", "controller", "x"}[verifrt.Choose("member", 7)]
	op := map[string]interface{}{"op": "add", "path": "/" + member, "value": c19Odd("value")}
	jp := patch.Patch{patch.ActionKey: patch.JSONPatch, patch.PatchesKey: []interface{}{op}}
	if patchvalidator.Validate(replace) != nil || patchvalidator.Validate(jp) != nil {
		return
	}
	doc, err := doccomposer.New().ApplyPatches(document.Document{}, []patch.Patch{replace, jp})
	if err != nil {
		return
	}
	var opts []Option
	opts = append(opts, WithBase(verifrt.Choose("base", 2) == 1))
	if verifrt.Choose("method-ctx", 2) == 1 {
		opts = append(opts, WithMethodContext([]string{"https://method.example/ctx"}))
	}
	rm := &protocol.ResolutionModel{Doc: doc, RecoveryCommitment: "rc", UpdateCommitment: "uc"}
	info := protocol.TransformationInfo{document.IDProperty: "did:method:" + verifrt.AnyAtom("suffix"), document.PublishedProperty: verifrt.AnyBool("published")}
	_, _ = New(opts...).TransformDocument(rm, info)
	_, _ = doctransformer.New().TransformDocument(rm, info)
	verifrt.Reach("answered")
}
