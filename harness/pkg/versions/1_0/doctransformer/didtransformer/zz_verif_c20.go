package didtransformer

import (
	"github.com/trustbloc/sidetree-go/pkg/api/protocol"
	"github.com/trustbloc/sidetree-go/pkg/document"
	verifrt "github.com/trustbloc/sidetree-go/pkg/internal/verifrt"
)

func c20Input(tag, typ string) (*protocol.ResolutionModel, protocol.TransformationInfo) {
	k := map[string]interface{}{"id": "key-" + tag, "type": typ, "purposes": []interface{}{"authentication"},
		"publicKeyJwk": map[string]interface{}{"kty": "EC", "crv": "P-256", "x": verifrt.AnyAtom(tag + "-x"), "y": verifrt.AnyAtom(tag + "-y")}}
	doc := document.Document{"publicKey": []interface{}{k}}
	rm := &protocol.ResolutionModel{Doc: doc, RecoveryCommitment: verifrt.AnyAtom(tag + "-rec"), UpdateCommitment: verifrt.AnyAtom(tag + "-upd")}
	info := protocol.TransformationInfo{document.IDProperty: "did:method:" + verifrt.AnyAtom(tag+"-suffix"), document.PublishedProperty: false}
	return rm, info
}

// Harness_C20_SharedTransformer: one transformer (0..3 method contexts, with and without @base) shared by two
// goroutines transforming distinct documents (different DIDs, different key types): no call writes state reachable
// from the transformer, and each result equals that of a private transformer.
func Harness_C20_SharedTransformer() {
	all := []string{"https://method.example/ctx1", "https://method.example/ctx2", "https://method.example/ctx3"}
	nctx := verifrt.Choose("method-contexts", 4)
	base := verifrt.Choose("base", 2) == 1
	mk := func() *Transformer { return New(WithBase(base), WithMethodContext(all[:nctx])) }
	shared := mk()
	rm1, info1 := c20Input("a", jsonWebKey2020)
	rm2, info2 := c20Input("b", ecdsaSecp256k1VerificationKey2019)
	seq1, e1 := mk().TransformDocument(rm1, info1)
	seq2, e2 := mk().TransformDocument(rm2, info2)
	var r1, r2 *document.ResolutionResult
	var x1, x2 error
	verifrt.Concurrent(
		func() { r1, x1 = shared.TransformDocument(rm1, info1) },
		func() { r2, x2 = shared.TransformDocument(rm2, info2) },
	)
	verifrt.Reach("done")
	if e1 != nil || e2 != nil || x1 != nil || x2 != nil {
		verifrt.Fail("transformation of a valid document fails")
		return
	}
	verifrt.Assert(verifrt.JSONEqual(r1.Document, seq1.Document) && verifrt.JSONEqual(r2.Document, seq2.Document),
		"concurrent transformations on a shared transformer return the same documents as private transformers")
}
