package didtransformer

import (
	"crypto/ed25519"
	"crypto/rand"
	"encoding/base64"

	"github.com/btcsuite/btcutil/base58"

	"github.com/trustbloc/sidetree-go/pkg/api/protocol"
	"github.com/trustbloc/sidetree-go/pkg/document"
	verifrt "github.com/trustbloc/sidetree-go/pkg/internal/verifrt"
)

var c18AllTypes = []string{jsonWebKey2020, ecdsaSecp256k1VerificationKey2019, bls12381G2Key2020, x25519KeyAgreementKey2019, ed25519VerificationKey2018, ed25519VerificationKey2020}
var c18AllPurposes = []string{"authentication", "assertionMethod", "keyAgreement", "capabilityDelegation", "capabilityInvocation"}
var c18AllRel = []string{"authentication", "assertionMethod", "keyAgreement", "capabilityDelegation", "capabilityInvocation"}

type c18Key struct {
	id, typ  string
	purposes []bool
	jwk      map[string]interface{}
	b58      string
	edPub    []byte
}

func c18AnyKey(tag string, c18Types, c18Purposes []string) *c18Key {
	k := &c18Key{id: verifrt.AnyAtom(tag + "-id"), typ: c18Types[verifrt.Choose(tag+"-type", len(c18Types))]}
	for i := range c18Purposes {
		k.purposes = append(k.purposes, verifrt.Choose(tag+"-purpose-"+c18Purposes[i], 2) == 1)
	}
	if k.typ == ed25519VerificationKey2018 || k.typ == ed25519VerificationKey2020 {
		if verifrt.Choose(tag+"-material", 2) == 0 {
			pub, _, err := ed25519.GenerateKey(rand.Reader)
			verifrt.Assume(err == nil)
			k.edPub = pub
			k.jwk = map[string]interface{}{"kty": "OKP", "crv": "Ed25519", "x": base64.RawURLEncoding.EncodeToString(pub)}
		} else {
			k.b58 = verifrt.AnyAtom(tag + "-b58")
		}
		return k
	}
	k.jwk = map[string]interface{}{"kty": "EC", "crv": "P-256", "x": verifrt.AnyAtom(tag + "-x"), "y": verifrt.AnyAtom(tag + "-y")}
	return k
}

func (k *c18Key) internal() map[string]interface{} {
	c18Purposes := c18AllPurposes
	m := map[string]interface{}{"id": k.id, "type": k.typ}
	var ps []interface{}
	for i, on := range k.purposes {
		if on {
			ps = append(ps, c18Purposes[i])
		}
	}
	if ps != nil {
		m["purposes"] = ps
	}
	if k.jwk != nil {
		m["publicKeyJwk"] = k.jwk
	} else {
		m["publicKeyBase58"] = k.b58
	}
	return m
}

func c18Transform(nkeys int, varyRest bool) { c18TransformWith(nkeys, varyRest, c18AllTypes, c18AllPurposes) }

func c18TransformWith(nkeys int, varyRest bool, c18Types, c18Purposes []string) {
	c18Rel := c18AllRel[:len(c18Purposes)]
	var keys []*c18Key
	var list []interface{}
	for i := 0; i < nkeys; i++ {
		k := c18AnyKey("k"+string(rune('0'+i)), c18Types, c18Purposes)
		keys = append(keys, k)
		list = append(list, k.internal())
	}
	doc := document.Document{"publicKey": list}
	svcExtra := 1
	if varyRest {
		svcExtra = verifrt.Choose("service", 3)
	}
	sid := verifrt.AnyAtom("svc-id")
	if svcExtra > 0 {
		s := map[string]interface{}{"id": sid, "type": "svc", "serviceEndpoint": "https://example.com/" + verifrt.AnyAtom("ep")}
		if svcExtra == 2 {
			s["routingKeys"] = []interface{}{"rk"}
		}
		doc["service"] = []interface{}{s}
	}
	hasAka := varyRest && verifrt.Choose("aka", 2) == 1
	aka := verifrt.AnyAtom("aka-uri")
	if hasAka {
		doc["alsoKnownAs"] = []interface{}{aka}
	}
	base := verifrt.Choose("base", 2) == 1
	var opts []Option
	opts = append(opts, WithBase(base))
	methodCtx := varyRest && verifrt.Choose("method-ctx", 2) == 1
	if methodCtx {
		opts = append(opts, WithMethodContext([]string{"https://method.example/ctx"}))
	}
	did := "did:method:" + verifrt.AnyAtom("suffix")
	rm := &protocol.ResolutionModel{Doc: doc, RecoveryCommitment: verifrt.AnyAtom("rec"), UpdateCommitment: verifrt.AnyAtom("upd"), AnchorOrigin: verifrt.AnyAtom("origin")}
	info := protocol.TransformationInfo{document.IDProperty: did, document.PublishedProperty: false}
	res, err := New(opts...).TransformDocument(rm, info)
	if err != nil {
		verifrt.Fail("transformation of a document built from validated keys fails")
		return
	}
	verifrt.Reach("transformed")
	out := res.Document
	verifrt.Assert(out.ID() == did, "document id is the given id")

	qualify := func(id string) string {
		if base {
			return "#" + id
		}
		return did + "#" + id
	}
	// verification methods: every key exactly once, in order
	vms, _ := out[document.VerificationMethodProperty].([]document.PublicKey)
	verifrt.Assert(len(vms) == len(keys), "every internal key is emitted exactly once as a verification method")
	if len(vms) != len(keys) {
		return
	}
	for i, k := range keys {
		vm := vms[i]
		verifrt.Assert(vm.ID() == qualify(k.id) && vm.Type() == k.typ && vm.Controller() == did, "verification method id = DID#key-id (relative under @base), type kept, controller = DID")
		switch {
		case k.edPub != nil && k.typ == ed25519VerificationKey2018:
			verifrt.Assert(vm.PublicKeyBase58() == base58.Encode(k.edPub) && vm.PublicKeyJwk() == nil, "Ed25519 2018 key material is converted to base58")
		case k.edPub != nil && k.typ == ed25519VerificationKey2020:
			verifrt.Assert(vm.PublicKeyMultibase() == "z"+base58.Encode(k.edPub) && vm.PublicKeyJwk() == nil, "Ed25519 2020 key material is converted to multibase")
		case k.jwk != nil:
			verifrt.Assert(verifrt.JSONEqual(vm["publicKeyJwk"], k.jwk), "JWK key material is preserved")
		default:
			verifrt.Assert(vm.PublicKeyBase58() == k.b58, "base58 key material is preserved")
		}
	}
	// relationships: exactly the keys with that purpose, in order
	for r, rel := range c18Rel {
		var want []interface{}
		for _, k := range keys {
			if k.purposes[r] {
				want = append(want, qualify(k.id))
			}
		}
		got, present := out[rel]
		if want == nil {
			verifrt.Assert(!present, "a relationship without keys is not emitted")
		} else {
			verifrt.Assert(present && verifrt.JSONEqual(got, want), "each relationship references exactly the keys whose purposes name it")
		}
	}
	// contexts: DID context, method contexts, base, one per key type used (in order of first use)
	want := []interface{}{didContext}
	if methodCtx {
		want = append(want, "https://method.example/ctx")
	}
	if base {
		want = append(want, map[string]interface{}{"@base": did})
	}
	seen := map[string]bool{}
	for _, k := range keys {
		c := defaultKeyContextMap[k.typ]
		if !seen[c] {
			seen[c] = true
			want = append(want, c)
		}
	}
	verifrt.Assert(verifrt.JSONEqual(out["@context"], want), "contexts = DID context, method contexts, @base, one per key type used")
	// services
	if svcExtra > 0 {
		svcs, _ := out[document.ServiceProperty].([]document.Service)
		verifrt.Assert(len(svcs) == 1 && verifrt.JSONEqual(svcs[0]["id"], qualify(sid)) && svcs[0].Type() == "svc" &&
			verifrt.JSONEqual(svcs[0]["serviceEndpoint"], doc["service"].([]interface{})[0].(map[string]interface{})["serviceEndpoint"]),
			"every service is emitted with a qualified id, its type and endpoint")
		if svcExtra == 2 && len(svcs) == 1 {
			verifrt.Assert(verifrt.JSONEqual(svcs[0]["routingKeys"], []interface{}{"rk"}), "further service members are carried over")
		}
	} else {
		_, present := out["service"]
		verifrt.Assert(!present, "no service member without services")
	}
	if hasAka {
		verifrt.Assert(verifrt.JSONEqual(out["alsoKnownAs"], []interface{}{aka}), "also-known-as URIs are carried over")
	}
	// metadata
	method, _ := res.DocumentMetadata[document.MethodProperty].(document.Metadata)
	verifrt.Assert(verifrt.JSONEqual(method[document.RecoveryCommitmentProperty], rm.RecoveryCommitment) && verifrt.JSONEqual(method[document.UpdateCommitmentProperty], rm.UpdateCommitment) &&
		verifrt.JSONEqual(method[document.AnchorOriginProperty], rm.AnchorOrigin) && verifrt.JSONEqual(method[document.PublishedProperty], false),
		"metadata reports the state's commitments, anchor origin and published flag")
}

// Harness_C18_TransformOneKey: every key type x purpose subset x material x option combination.
func Harness_C18_TransformOneKey() { c18Transform(1, false) }

// Harness_C18_TransformRest: services (with further members), also-known-as, method contexts, @base.
func Harness_C18_TransformRest() { c18TransformWith(1, true, c18AllTypes[:1], c18AllPurposes) }

// HarnessT_C18_TransformTwoKeys: two keys (order, context de-duplication, shared relationships).
func HarnessT_C18_TransformTwoKeys() { c18Transform(2, false) }

// Harness_C18_ThreeKeyContexts: three keys of any of three types in any order (e.g. A, B, A): one context per key
// type used, every key emitted once and in order.
func Harness_C18_ThreeKeyContexts() {
	c18TransformWith(3, false, []string{jsonWebKey2020, ecdsaSecp256k1VerificationKey2019, x25519KeyAgreementKey2019}, nil)
}
