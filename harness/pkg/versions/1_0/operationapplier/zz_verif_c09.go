package operationapplier

import (
	"github.com/trustbloc/sidetree-go/pkg/api/protocol"
	verifrt "github.com/trustbloc/sidetree-go/pkg/internal/verifrt"
)

// anyProtocolNumbers: every numeric field of the protocol configuration is a free 64-bit symbol.
func anyProtocolNumbers(tag string) protocol.Protocol {
	return protocol.Protocol{
		GenesisTime:                  verifrt.AnyU64(tag + "GenesisTime"),
		MultihashAlgorithms:          []uint{verifrt.AnyUint(tag + "mh0")},
		MaxOperationCount:            verifrt.AnyUint(tag + "MaxOperationCount"),
		MaxOperationSize:             verifrt.AnyUint(tag + "MaxOperationSize"),
		MaxOperationHashLength:       verifrt.AnyUint(tag + "MaxOperationHashLength"),
		MaxDeltaSize:                 verifrt.AnyUint(tag + "MaxDeltaSize"),
		MaxCasURILength:              verifrt.AnyUint(tag + "MaxCasURILength"),
		MaxCoreIndexFileSize:         verifrt.AnyUint(tag + "MaxCoreIndexFileSize"),
		MaxProofFileSize:             verifrt.AnyUint(tag + "MaxProofFileSize"),
		MaxProvisionalIndexFileSize:  verifrt.AnyUint(tag + "MaxProvisionalIndexFileSize"),
		MaxChunkFileSize:             verifrt.AnyUint(tag + "MaxChunkFileSize"),
		MaxMemoryDecompressionFactor: verifrt.AnyUint(tag + "MaxMemoryDecompressionFactor"),
		NonceSize:                    verifrt.AnyU64(tag + "NonceSize"),
		MaxOperationTimeDelta:        verifrt.AnyU64(tag + "MaxOperationTimeDelta"),
	}
}

// Harness_C09_Window: the applier's window predicate equals the documented one for every
// (from, until, anchoring time) and depends on no protocol number but MaxOperationTimeDelta.
func Harness_C09_Window() {
	p := anyProtocolNumbers("p_")
	from, until, t := verifrt.AnyI64("from"), verifrt.AnyI64("until"), verifrt.AnyU64("t")
	// no-wrap region (stated bound)
	verifrt.Assume(t < 1<<62 && from > -(1<<62) && from < 1<<62 && until > -(1<<62) && until < 1<<62 && p.MaxOperationTimeDelta < 1<<62)
	got := (&Applier{Protocol: p}).verifyAnchoringTimeRange(from, until, t) == nil
	u := until
	if from != 0 && until == 0 {
		u = from + int64(p.MaxOperationTimeDelta)
	}
	want := (from == 0 && until == 0) || (from <= int64(t) && int64(t) <= u)
	if got {
		verifrt.Reach("effective")
	} else {
		verifrt.Reach("not-effective")
	}
	verifrt.Assert(got == want, "applier window = [from, until | from+MaxOperationTimeDelta]")
	q := anyProtocolNumbers("q_")
	q.MaxOperationTimeDelta = p.MaxOperationTimeDelta
	got2 := (&Applier{Protocol: q}).verifyAnchoringTimeRange(from, until, t) == nil
	verifrt.Assert(got2 == got, "applier window depends on no protocol parameter other than MaxOperationTimeDelta")
}
