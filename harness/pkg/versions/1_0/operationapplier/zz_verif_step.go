package operationapplier

import (
	"strings"

	"github.com/trustbloc/sidetree-go/pkg/api/operation"
	"github.com/trustbloc/sidetree-go/pkg/api/protocol"
	"github.com/trustbloc/sidetree-go/pkg/document"
	"github.com/trustbloc/sidetree-go/pkg/encoder"
	gen "github.com/trustbloc/sidetree-go/pkg/internal/verifgen"
	verifrt "github.com/trustbloc/sidetree-go/pkg/internal/verifrt"
	"github.com/trustbloc/sidetree-go/pkg/patch"
	"github.com/trustbloc/sidetree-go/pkg/versions/1_0/doccomposer"
	"github.com/trustbloc/sidetree-go/pkg/versions/1_0/model"
	"github.com/trustbloc/sidetree-go/pkg/versions/1_0/operationparser"
)

// ---- one inductive step of Apply from an arbitrary pre-state (DESIGN.md C01) ----

// tamper classes (C02) and failure classes (C01)
const (
	tNone              = iota
	tUnparsable        // request is not a well-formed request of its type
	tWrongSigner       // signed by a key other than the one inside the signed data
	tPayloadChanged    // a signed-payload field re-encoded after signing (signature kept)
	tAttackerKey       // key substituted, re-signed, reveal value adjusted: verifies under the embedded key
	tRevealMismatch    // reveal value does not match the embedded key
	tDeltaSubstituted  // delta replaced, signed delta hash kept
	tDeltaInvalid      // delta bound by hash but not valid (no patches)
	tInapplicable      // delta valid but its patches do not apply
	tExtraHeader       // protected header carries a member other than alg/kid
	tAlgNotAllowed     // protected header names an algorithm outside the allowed list
	tTruncated         // compact form without the signature segment
	tSuffixMismatch    // deactivate: signed suffix differs from the request's
	tSigPadded         // signature segment with one extra trailing byte
	tSigTruncated      // signature segment with its last byte removed
	tSigBitFlip        // one byte of the signature changed
	tKeyReuse          // recover: the next recovery commitment commits to the very key that is being revealed
	tSignedExtraHeader // protected header with a further member (unrelated, or a case variant of alg/kid), signed over by the key holder
	tCount
)

func anyPreState(hasDoc bool) *protocol.ResolutionModel {
	rm := anyPreState0(hasDoc)
	if hasDoc && verifrt.Choose("pre-state-doc-empty", 2) == 1 {
		rm.Doc = document.Document{} // existing but empty document (after a degraded create/recover)
	}
	return rm
}

func anyPreState0(hasDoc bool) *protocol.ResolutionModel {
	rm := &protocol.ResolutionModel{
		CreatedTime:                    verifrt.AnyU64("rm-created"),
		UpdatedTime:                    verifrt.AnyU64("rm-updated"),
		LastOperationTransactionTime:   verifrt.AnyU64("rm-last-time"),
		LastOperationTransactionNumber: verifrt.AnyU64("rm-last-num"),
		LastOperationProtocolVersion:   verifrt.AnyU64("rm-last-ver"),
		UpdateCommitment:               verifrt.AnyAtom("rm-upd-commit"),
		RecoveryCommitment:             verifrt.AnyAtom("rm-rec-commit"),
		AnchorOrigin:                   verifrt.AnyAtom("rm-origin"),
		EquivalentReferences:           []string{verifrt.AnyAtom("rm-eq")},
		CanonicalReference:             verifrt.AnyAtom("rm-canon"),
		VersionID:                      verifrt.AnyAtom("rm-version"),
		PublishedOperations:            []*operation.AnchoredOperation{{Type: operation.TypeCreate, UniqueSuffix: "p"}},
		UnpublishedOperations:          []*operation.AnchoredOperation{{Type: operation.TypeUpdate, UniqueSuffix: "u"}},
	}
	if hasDoc {
		rm.Doc = document.Document{"publicKey": []interface{}{map[string]interface{}{"id": verifrt.AnyAtom("rm-kid"), "type": "JsonWebKey2020",
			"publicKeyJwk": map[string]interface{}{"kty": "EC", "crv": "P-256", "x": "x0", "y": "y0"}}}}
	}
	return rm
}

// otherSigner: a different key pair that claims key's public JWK.
func otherSigner(key *gen.Signer) *gen.Signer {
	o := gen.NewSignerKind("other", keyKind)
	verifrt.Assume(o.JWK.X != key.JWK.X || o.JWK.Y != key.JWK.Y)
	o.JWK = key.JWK
	return o
}

// substDelta: a delta that differs from d.
func substDelta(d interface{}, code uint) *model.DeltaModel {
	s := gen.Delta(gen.Commitment(gen.Key("subst"), code), gen.KeyPatch("subst"))
	verifrt.Assume(!verifrt.JSONEqual(s, d))
	return s
}

func failingJSONPatch() patch.Patch {
	return patch.Patch{patch.ActionKey: "ietf-json-patch", patch.PatchesKey: []interface{}{
		map[string]interface{}{"op": "test", "path": "/nothing-here", "value": "v"}}}
}

// retamper rebuilds a compact JWS from its three segments after modifying one of them.
func withHeaders(compact string, headers map[string]interface{}) string {
	parts := strings.Split(compact, ".")
	return encoder.EncodeToString(gen.JSON(headers)) + "." + parts[1] + "." + parts[2]
}

func withPayload(compact string, payload interface{}) string {
	parts := strings.Split(compact, ".")
	return parts[0] + "." + encoder.EncodeToString(gen.JSON(payload)) + "." + parts[2]
}

type stepCase struct {
	typ       operation.Type
	tamper    int
	request   []byte
	patches   []patch.Patch
	updCommit string // delta's update commitment
	recCommit string // create/recover: new recovery commitment
	origin    interface{}
	from      int64
	until     int64
	windowed  bool
}

func inWindow(p protocol.Protocol, from, until int64, t uint64) bool {
	if from == 0 && until == 0 {
		return true
	}
	u := until
	if until == 0 {
		u = from + int64(p.MaxOperationTimeDelta)
	}
	return from <= int64(t) && int64(t) <= u
}

// buildCase constructs the operation request for (type, tamper class); returns nil when the class does not apply.
func buildCase(typ operation.Type, tamper int, code uint, suffix string) *stepCase {
	c := &stepCase{typ: typ, tamper: tamper}
	good := gen.KeyPatch("kp")
	c.patches = []patch.Patch{good}
	if tamper == tInapplicable {
		// the failing patch alone, behind a good one, or in front of a patch that would make up for it (a replace
		// discards what came before, but the delta is still not applicable)
		switch verifrt.Choose("inapplicable-shape", 3) {
		case 0:
			c.patches = []patch.Patch{failingJSONPatch()}
		case 1:
			c.patches = []patch.Patch{good, failingJSONPatch()}
		default:
			c.patches = []patch.Patch{failingJSONPatch(), gen.ReplacePatch("rp")}
		}
	}
	if tamper == tDeltaInvalid {
		c.patches = nil
	}
	if verifrt.Choose("windowed", 2) == 1 && typ != operation.TypeCreate {
		c.windowed = true
		c.from, c.until = verifrt.AnyI64("from"), verifrt.AnyI64("until")
		verifrt.Assume(c.from > -(1<<62) && c.from < 1<<62 && c.until > -(1<<62) && c.until < 1<<62)
	}
	switch typ {
	case operation.TypeCreate:
		switch tamper {
		case tNone, tUnparsable, tDeltaSubstituted, tDeltaInvalid, tInapplicable:
		default:
			return nil
		}
		cr := gen.NewCreate("cr", code, c.patches...)
		cr.Suffix.AnchorOrigin = verifrt.AnyAtom("op-origin")
		c.origin = cr.Suffix.AnchorOrigin
		c.updCommit, c.recCommit = cr.Delta.UpdateCommitment, cr.Suffix.RecoveryCommitment
		if tamper == tDeltaSubstituted {
			cr.Request.Delta = substDelta(cr.Delta, code)
		}
		c.request = gen.JSON(cr.Request)
		if tamper == tUnparsable {
			c.request = gen.JSON(map[string]interface{}{"type": "create", "suffixData": "not-an-object"})
		}
	case operation.TypeUpdate:
		if tamper == tSuffixMismatch {
			return nil
		}
		if tamper == tKeyReuse {
			return nil // the applier's (batch) parse of an update does not look at key re-use: not part of this claim
		}
		key := gen.NewSignerKind("upd", keyKind)
		signer := key
		if tamper == tWrongSigner {
			signer = otherSigner(key)
		}
		u := gen.NewUpdate(suffix, code, signer, gen.Key("next-upd"), c.from, c.until, c.patches...)
		c.updCommit = u.Delta.UpdateCommitment
		tamperSigned(tamper, signer, &u.Request.SignedData, &u.Request.RevealValue, u.Signed, func() { u.Signed.DeltaHash = gen.ModelHash(gen.Delta("x", good), code) })
		if tamper == tDeltaSubstituted {
			u.Request.Delta = substDelta(u.Delta, code)
			c.updCommit = u.Request.Delta.UpdateCommitment
		}
		c.request = gen.JSON(u.Request)
		if tamper == tUnparsable {
			c.request = gen.JSON(map[string]interface{}{"type": "update", "didSuffix": suffix, "revealValue": u.Request.RevealValue, "signedData": 5})
		}
	case operation.TypeRecover:
		if tamper == tSuffixMismatch {
			return nil
		}
		key := gen.NewSignerKind("rec", keyKind)
		signer := key
		if tamper == tWrongSigner {
			signer = otherSigner(key)
		}
		nextRec := gen.Key("next-rec")
		if tamper == tKeyReuse {
			nextRec = signer.JWK
		}
		r := gen.NewRecover(suffix, code, signer, nextRec, gen.Key("next-upd"), c.from, c.until, c.patches...)
		r.Signed.AnchorOrigin = verifrt.AnyAtom("op-origin")
		r.Request.SignedData = signer.Sign(r.Signed)
		c.origin = r.Signed.AnchorOrigin
		c.updCommit, c.recCommit = r.Delta.UpdateCommitment, r.Signed.RecoveryCommitment
		tamperSigned(tamper, signer, &r.Request.SignedData, &r.Request.RevealValue, r.Signed, func() {
			evil := gen.Commitment(gen.Key("evil-rec"), code)
			verifrt.Assume(evil != r.Signed.RecoveryCommitment)
			r.Signed.RecoveryCommitment = evil
		})
		if tamper == tDeltaSubstituted {
			r.Request.Delta = substDelta(r.Delta, code)
		}
		c.request = gen.JSON(r.Request)
		if tamper == tUnparsable {
			c.request = gen.JSON(map[string]interface{}{"type": "recover", "didSuffix": suffix, "revealValue": r.Request.RevealValue, "signedData": true})
		}
	case operation.TypeDeactivate:
		switch tamper {
		case tDeltaSubstituted, tDeltaInvalid, tInapplicable, tKeyReuse:
			return nil
		}
		key := gen.NewSignerKind("rec", keyKind)
		signer := key
		if tamper == tWrongSigner {
			signer = otherSigner(key)
		}
		signedSuffix := suffix
		if tamper == tSuffixMismatch {
			signedSuffix = suffix + "x"
		}
		d := gen.NewDeactivate(signedSuffix, code, signer, c.from, c.until)
		d.Request.DidSuffix = suffix
		tamperSigned(tamper, signer, &d.Request.SignedData, &d.Request.RevealValue, d.Signed, func() { d.Signed.AnchorUntil = d.Signed.AnchorUntil + 1000 })
		c.request = gen.JSON(d.Request)
		if tamper == tUnparsable {
			c.request = gen.JSON(map[string]interface{}{"type": "deactivate", "didSuffix": "", "revealValue": d.Request.RevealValue, "signedData": d.Request.SignedData})
		}
	}
	return c
}

// tamperSigned applies the JWS-level tamper classes to a signed request in place.
func tamperSigned(tamper int, signer *gen.Signer, signedData, reveal *string, payload interface{}, changePayload func()) {
	switch tamper {
	case tSignedExtraHeader:
		extra := []map[string]interface{}{{"crit": "x"}, {"Kid": "someone-else"}, {"ALG": "ES256"}}[verifrt.Choose("extra-header", 3)]
		*signedData = signer.SignWithHeaders(payload, extra)
	case tPayloadChanged:
		changePayload()
		*signedData = withPayload(*signedData, payload)
	case tRevealMismatch:
		*reveal = gen.Reveal(gen.Key("unrelated"), gen.SHA256)
	case tExtraHeader:
		*signedData = withHeaders(*signedData, map[string]interface{}{"alg": "ES256", "crit": "x"})
	case tAlgNotAllowed:
		*signedData = withHeaders(*signedData, map[string]interface{}{"alg": "none"})
	case tTruncated:
		parts := strings.Split(*signedData, ".")
		*signedData = parts[0] + "." + parts[1]
	case tSigPadded, tSigTruncated, tSigBitFlip:
		parts := strings.Split(*signedData, ".")
		sig, err := encoder.DecodeString(parts[2])
		verifrt.Assume(err == nil && len(sig) == 64)
		switch tamper {
		case tSigPadded:
			sig = append(append([]byte{}, sig...), verifrt.AnyU8("pad-byte"))
		case tSigTruncated:
			sig = sig[:len(sig)-1]
		case tSigBitFlip:
			d := verifrt.AnyU8("flip")
			verifrt.Assume(d != 0)
			mod := append([]byte{}, sig...)
			mod[[]int{0, 31, 32, 63}[verifrt.Choose("flip-pos", 4)]] ^= d
			sig = mod
		}
		*signedData = parts[0] + "." + parts[1] + "." + encoder.EncodeToString(sig)
	}
}

// expectRefusal: the reference transition function's refusal predicate.
func expectRefusal(c *stepCase, hasDoc bool, p protocol.Protocol, t uint64) bool {
	known := c.typ == operation.TypeCreate || c.typ == operation.TypeUpdate || c.typ == operation.TypeRecover || c.typ == operation.TypeDeactivate
	if !known {
		return true
	}
	if (c.typ == operation.TypeCreate) == hasDoc {
		return true // create only on an empty state, the others only on an existing one
	}
	switch c.tamper {
	case tUnparsable, tWrongSigner, tPayloadChanged, tRevealMismatch, tExtraHeader, tAlgNotAllowed, tTruncated, tSuffixMismatch, tSigPadded, tSigTruncated, tSigBitFlip, tKeyReuse, tSignedExtraHeader:
		return true
	}
	switch c.typ {
	case operation.TypeUpdate:
		return c.tamper == tDeltaSubstituted || c.tamper == tDeltaInvalid
	case operation.TypeDeactivate:
		return !inWindow(p, c.from, c.until, t)
	}
	return false
}

func applierStep(typeChoices []operation.Type, tampers []int) {
	code := uint(gen.SHA256)
	p := gen.Protocol("p", false)
	p.MaxOperationTimeDelta = verifrt.AnyU64("MaxOperationTimeDelta")
	p.GenesisTime = verifrt.AnyU64("genesis-time") // the applier's own protocol version: any value
	verifrt.Assume(p.MaxOperationTimeDelta < 1<<62)
	composer := doccomposer.New()
	a := New(p, operationparser.New(p), composer)

	hasDoc := verifrt.Choose("pre-state-has-doc", 2) == 1
	rm := anyPreState(hasDoc)
	typ := typeChoices[verifrt.Choose("type", len(typeChoices))]
	tamper := tampers[verifrt.Choose("tamper", len(tampers))]
	suffix := "suffix" + verifrt.AnyAtom("suffix")
	c := buildCase(typ, tamper, code, suffix)
	if c == nil {
		verifrt.Assume(false)
		return
	}
	op := &operation.AnchoredOperation{Type: typ, UniqueSuffix: suffix, OperationRequest: c.request,
		TransactionTime: verifrt.AnyU64("tx-time"), TransactionNumber: verifrt.AnyU64("tx-num"), ProtocolVersion: verifrt.AnyU64("tx-ver"),
		CanonicalReference: verifrt.AnyAtom("op-canon"), EquivalentReferences: []string{verifrt.AnyAtom("op-eq0"), verifrt.AnyAtom("op-eq1"), verifrt.AnyAtom("op-eq2")}}
	if verifrt.Choose("op-published", 2) == 0 {
		// an operation that is not anchored yet (unpublished) has no references of its own
		op.CanonicalReference, op.EquivalentReferences = "", nil
	}
	var opRefs []string
	if op.EquivalentReferences != nil {
		opRefs = append([]string{}, op.EquivalentReferences...)
	}
	verifrt.Assume(op.TransactionTime < 1<<62)
	if typ == "other" {
		op.Type = operation.Type(verifrt.AnyAtom("unknown-type"))
		verifrt.Assume(op.Type != operation.TypeCreate && op.Type != operation.TypeUpdate && op.Type != operation.TypeRecover && op.Type != operation.TypeDeactivate)
		c.typ = op.Type
	}
	verifrt.Freeze(rm, op, c.patches) // C12: inputs are never written

	res, err := a.Apply(op, rm)

	refuse := expectRefusal(c, hasDoc, p, op.TransactionTime)
	if err != nil {
		verifrt.Reach("refused")
		verifrt.Assert(refuse, "an operation that the rules accept must not be refused")
		verifrt.Assert(res == nil, "a refused operation yields an error and no state")
		return
	}
	verifrt.Reach("accepted")
	verifrt.Assert(!refuse, "refusal: wrong first/non-first operation, unparsable request, bad signed data or signature, unbound or invalid update delta, suffix mismatch or out-of-window deactivate")
	if refuse {
		return
	}
	window := inWindow(p, c.from, c.until, op.TransactionTime)
	bound := c.tamper != tDeltaSubstituted
	valid := c.tamper != tDeltaInvalid
	applicable := c.tamper != tInapplicable

	// bookkeeping follows the last accepted operation
	verifrt.Assert(res.LastOperationTransactionTime == op.TransactionTime && res.LastOperationTransactionNumber == op.TransactionNumber &&
		res.LastOperationProtocolVersion == op.ProtocolVersion && res.VersionID == op.CanonicalReference, "last-operation time/number/version and version id follow the accepted operation")
	verifrt.Assert(verifrt.SameObject(res.PublishedOperations, rm.PublishedOperations) && verifrt.SameObject(res.UnpublishedOperations, rm.UnpublishedOperations),
		"published/unpublished operation lists are carried over")

	empty := document.Document{}
	switch c.typ {
	case operation.TypeCreate, operation.TypeRecover:
		verifrt.Assert(res.RecoveryCommitment == c.recCommit, "create/recover always installs its new recovery commitment")
		verifrt.Assert(verifrt.JSONEqual(res.AnchorOrigin, c.origin), "create/recover installs its anchor origin")
		verifrt.Assert(res.CanonicalReference == op.CanonicalReference && verifrt.JSONEqual(res.EquivalentReferences, opRefs),
			"create/recover installs the operation's canonical and equivalent references")
		if c.typ == operation.TypeCreate {
			verifrt.Assert(res.CreatedTime == op.TransactionTime && res.UpdatedTime == 0, "create sets the created time")
			window = true
		} else {
			verifrt.Assert(res.CreatedTime == rm.CreatedTime && res.UpdatedTime == op.TransactionTime, "recover keeps created time and sets updated time")
		}
		if bound && valid {
			verifrt.Assert(res.UpdateCommitment == c.updCommit, "update commitment installed when the delta is hash-bound and valid")
		} else {
			verifrt.Assert(res.UpdateCommitment == "", "no update commitment from an unbound or invalid delta")
		}
		want := empty
		if bound && valid && window && applicable {
			want, _ = composer.ApplyPatches(document.Document{}, c.patches)
		}
		verifrt.Assert(verifrt.JSONEqual(res.Doc, want) && res.Doc != nil, "document = patches applied to the empty document only if hash-bound, valid, in-window and applicable; otherwise empty")
		verifrt.Assert(!res.Deactivated, "not deactivated")
	case operation.TypeUpdate:
		verifrt.Assert(res.UpdateCommitment == c.updCommit && res.RecoveryCommitment == rm.RecoveryCommitment, "update advances only the update commitment")
		verifrt.Assert(verifrt.JSONEqual(res.AnchorOrigin, rm.AnchorOrigin) && res.CanonicalReference == rm.CanonicalReference &&
			verifrt.SameObject(res.EquivalentReferences, rm.EquivalentReferences) && res.CreatedTime == rm.CreatedTime && res.UpdatedTime == op.TransactionTime,
			"update keeps anchor origin, references and created time, sets updated time")
		if window && applicable {
			want, _ := composer.ApplyPatches(rm.Doc, c.patches)
			verifrt.Assert(verifrt.JSONEqual(res.Doc, want), "in-window applicable update patches the previous document")
		} else {
			verifrt.Assert(verifrt.SameObject(res.Doc, rm.Doc), "out-of-window or inapplicable update leaves the document unchanged")
		}
		verifrt.Assert(!res.Deactivated, "not deactivated")
	case operation.TypeDeactivate:
		verifrt.Assert(res.Deactivated && res.UpdateCommitment == "" && res.RecoveryCommitment == "" && verifrt.JSONEqual(res.Doc, empty) && res.Doc != nil,
			"deactivate empties the document, clears both commitments and sets the flag")
		verifrt.Assert(verifrt.JSONEqual(res.AnchorOrigin, rm.AnchorOrigin) && res.CanonicalReference == rm.CanonicalReference &&
			verifrt.SameObject(res.EquivalentReferences, rm.EquivalentReferences) && res.CreatedTime == rm.CreatedTime && res.UpdatedTime == op.TransactionTime,
			"deactivate keeps anchor origin, references and created time, sets updated time")
	}
}

// keyKind: signing-key type used by the step harness (0 P-256, 1 secp256k1, 2 Ed25519)
var keyKind = 0

// HarnessT_C01_StepOtherKeys: the same step for secp256k1 and Ed25519 signing keys.
func HarnessT_C01_StepOtherKeys() {
	keyKind = 1 + verifrt.Choose("key-kind", 2)
	applierStep([]operation.Type{operation.TypeUpdate, operation.TypeRecover, operation.TypeDeactivate}, []int{tNone, tWrongSigner, tDeltaSubstituted, tInapplicable})
}

// HarnessT_C02_TamperOtherKeys: tampering classes for secp256k1 and Ed25519 signing keys.
func HarnessT_C02_TamperOtherKeys() {
	keyKind = 1 + verifrt.Choose("key-kind", 2)
	applierStep([]operation.Type{operation.TypeUpdate, operation.TypeRecover, operation.TypeDeactivate},
		[]int{tNone, tWrongSigner, tPayloadChanged, tRevealMismatch, tExtraHeader, tSignedExtraHeader, tAlgNotAllowed, tTruncated, tSigPadded, tSigTruncated, tSigBitFlip})
}

var allTypes = []operation.Type{operation.TypeCreate, operation.TypeUpdate, operation.TypeRecover, operation.TypeDeactivate, "other"}

// Harness_C01_Step: every operation type x failure class x pre-state, anchoring tuple symbolic.
func Harness_C01_Step() {
	keyKind = 0
	applierStep(allTypes, []int{tNone, tUnparsable, tWrongSigner, tDeltaSubstituted, tDeltaInvalid, tInapplicable, tSuffixMismatch, tKeyReuse})
}

// Harness_C02_Tamper: every tampering class of a signed operation.
func Harness_C02_Tamper() {
	keyKind = 0
	applierStep([]operation.Type{operation.TypeUpdate, operation.TypeRecover, operation.TypeDeactivate},
		[]int{tNone, tWrongSigner, tPayloadChanged, tRevealMismatch, tDeltaSubstituted, tExtraHeader, tSignedExtraHeader, tAlgNotAllowed, tTruncated, tSuffixMismatch, tSigPadded, tSigTruncated, tSigBitFlip})
}

// Harness_C09_ApplyWindow: out-of-window updates and recovers still advance their commitments but leave the
// document unchanged (empty for recover); out-of-window deactivates are refused - for every (from, until, time).
func Harness_C09_ApplyWindow() {
	keyKind = 0
	applierStep([]operation.Type{operation.TypeUpdate, operation.TypeRecover, operation.TypeDeactivate}, []int{tNone})
}

// Harness_C12_ApplierInputs: the previous state (at any depth), the anchored operation and the patch values are
// never written, whether the operation is applied, degraded or refused; a refused operation yields no state.
func Harness_C12_ApplierInputs() {
	keyKind = 0
	applierStep(allTypes, []int{tNone, tUnparsable, tWrongSigner, tDeltaSubstituted, tInapplicable})
}
