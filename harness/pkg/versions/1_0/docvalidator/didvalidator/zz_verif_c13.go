package didvalidator

import (
	gen "github.com/trustbloc/sidetree-go/pkg/internal/verifgen"
	verifrt "github.com/trustbloc/sidetree-go/pkg/internal/verifrt"
)

// Harness_C13_OriginalDIDDocument: an original DID document is accepted iff it carries neither an id nor a context;
// the id is absent / a string / of another JSON kind, the context absent / a string / an array / an object.
func Harness_C13_OriginalDIDDocument() {
	doc := map[string]interface{}{"publicKey": []interface{}{map[string]interface{}{"id": "key1", "type": "JsonWebKey2020"}}}
	carriesID, carriesCtx := false, false
	switch verifrt.Choose("id", 4) {
	case 1:
		doc["id"], carriesID = "did:example:"+verifrt.AnyAtom("id"), true
	case 2:
		doc["id"], carriesID = 7.0, true
	case 3:
		doc["id"], carriesID = map[string]interface{}{"x": "y"}, true
	}
	switch verifrt.Choose("context", 5) {
	case 1:
		doc["@context"], carriesCtx = []interface{}{"https://www.w3.org/ns/did/v1"}, true
	case 2:
		doc["@context"], carriesCtx = "https://www.w3.org/ns/did/v1", true
	case 3:
		doc["@context"], carriesCtx = map[string]interface{}{"@base": "did:example:1"}, true
	case 4:
		doc["@context"] = []interface{}{} // an empty list is no context
	}
	err := New().IsValidOriginalDocument(gen.JSON(doc))
	if err == nil {
		verifrt.Reach("accepted")
	} else {
		verifrt.Reach("refused")
	}
	verifrt.Assert((err != nil) == (carriesID || carriesCtx), "an original DID document is refused exactly when it carries an id or a context")
}
