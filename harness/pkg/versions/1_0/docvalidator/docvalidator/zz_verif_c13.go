package docvalidator

import (
	gen "github.com/trustbloc/sidetree-go/pkg/internal/verifgen"
	verifrt "github.com/trustbloc/sidetree-go/pkg/internal/verifrt"
)

// Harness_C13_OriginalDocument: an original (generic) document is accepted iff it carries no id.
func Harness_C13_OriginalDocument() {
	doc := map[string]interface{}{"name": verifrt.AnyAtom("name")}
	carriesID := false
	switch verifrt.Choose("id", 4) {
	case 1:
		doc["id"], carriesID = "doc:"+verifrt.AnyAtom("id"), true
	case 2:
		doc["id"], carriesID = 7.0, true
	case 3:
		doc["id"], carriesID = []interface{}{"a"}, true
	}
	err := New().IsValidOriginalDocument(gen.JSON(doc))
	if err == nil {
		verifrt.Reach("accepted")
	} else {
		verifrt.Reach("refused")
	}
	verifrt.Assert((err != nil) == carriesID, "an original document is refused exactly when it carries an id")
}
