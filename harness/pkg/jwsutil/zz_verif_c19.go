package jwsutil

import (
	"encoding/base64"

	verifrt "github.com/trustbloc/sidetree-go/pkg/internal/verifrt"
	"github.com/trustbloc/sidetree-go/pkg/jws"
)

func c19Segment(tag string) string {
	switch verifrt.Choose(tag, 5) {
	case 0:
		return ""
	case 1:
		return verifrt.AnyStr(tag+"-raw", 2)
	case 2:
		return base64.RawURLEncoding.EncodeToString([]byte(`{"alg":"ES256"}`))
	case 3:
		return base64.RawURLEncoding.EncodeToString([]byte(`{"alg":7,"b64":"no"}`))
	}
	return base64.RawURLEncoding.EncodeToString([]byte(`[1]`))
}

// Harness_C19_ParseVerifyJWS: compact forms with 1..4 segments of odd content and JWKs with odd members.
func Harness_C19_ParseVerifyJWS() {
	n := 1 + verifrt.Choose("segments", 4)
	if n == 4 {
		_, _ = ParseJWS("a.b.c.d")
		_, _ = VerifyJWS("....", &jws.JWK{Kty: "EC", Crv: "P-256"})
		verifrt.Reach("answered")
		return
	}
	s := c19Segment("s0")
	for i := 1; i < n; i++ {
		if i == 2 && verifrt.Choose("sig-bytes", 2) == 1 {
			s += "." + base64.RawURLEncoding.EncodeToString(verifrt.AnyBytes("sig", []int{1, 64}[verifrt.Choose("sig-len", 2)]))
			continue
		}
		s += "." + c19Segment("s"+string(rune('0'+i)))
	}
	_, _ = ParseJWS(s)
	k := &jws.JWK{}
	switch verifrt.Choose("jwk", 5) {
	case 1:
		k = &jws.JWK{Kty: "EC", Crv: "P-256", X: "AA", Y: "AA"}
	case 2:
		k = &jws.JWK{Kty: "OKP", Crv: "Ed25519", X: "AA"}
	case 3:
		k = &jws.JWK{Kty: "EC", Crv: "secp256k1", X: verifrt.AnyStr("x", 2), Y: ""}
	case 4:
		k = &jws.JWK{Kty: verifrt.AnyStr("kty", 2), Crv: verifrt.AnyStr("crv", 1)}
	}
	_, _ = VerifyJWS(s, k)
	verifrt.Reach("answered")
}
