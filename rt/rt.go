// Package verifrt holds the intrinsics used by verification harnesses.
//
// Under the symbolic executor (symgo) calls to these functions are intercepted by name and
// their bodies are never executed. Compiled natively (go test -overlay) the bodies below
// replay a solver assignment: inputs are consumed in creation order from the file named by
// VERIF_REPLAY, and Reach/Observe/Assert append to an event log that the engine compares with
// the symbolic run.
package verifrt

import (
	"sync"
	"math"
	"encoding/hex"
	"encoding/json"
	"fmt"
	"reflect"
	"strconv"
)

type entry struct {
	K string `json:"k"`
	N string `json:"n"`
	V string `json:"v"`
}

type Session struct {
	In     []entry
	pos    int
	Events []string
	frozen []frozenItem
	retries int
	Killed bool
}

type frozenItem struct {
	live interface{}
	snap string
}

var cur = &Session{}

type stop struct{ why string }

// Load starts a replay session from a JSON assignment.
func Load(data []byte) error {
	s := &Session{}
	if err := json.Unmarshal(data, &s.In); err != nil {
		return err
	}
	cur = s
	return nil
}

// Run executes f under the current session and returns the event log.
func Run(f func()) (events []string) {
	defer func() {
		if r := recover(); r != nil {
			if st, ok := r.(stop); ok {
				cur.Events = append(cur.Events, "stop:"+st.why)
			} else {
				cur.Events = append(cur.Events, fmt.Sprintf("panic:%v", r))
			}
		}
		events = cur.Events
	}()
	f()
	CheckFrozen()
	return
}

func next(kind, name string) string {
	for cur.pos < len(cur.In) && (cur.In[cur.pos].K == "lz" || cur.In[cur.pos].K == "until") {
		cur.pos++ // pattern entries are looked up by name
	}
	if cur.pos >= len(cur.In) {
		panic(stop{"input exhausted at " + kind + " " + name})
	}
	e := cur.In[cur.pos]
	cur.pos++
	if e.K != kind {
		panic(stop{fmt.Sprintf("input kind mismatch at #%d: want %s(%s) have %s(%s)", cur.pos-1, kind, name, e.K, e.N)})
	}
	return e.V
}

func AnyBool(name string) bool { return next("bool", name) == "1" }
func AnyU64(name string) uint64 {
	v, _ := strconv.ParseUint(next("u64", name), 10, 64)
	return v
}
func AnyI64(name string) int64 { return int64(AnyU64(name)) }
func AnyInt(name string) int   { return int(AnyU64(name)) }
func AnyUint(name string) uint { return uint(AnyU64(name)) }
func AnyU8(name string) byte   { return byte(AnyU64(name)) }
func AnyU32(name string) uint32 { return uint32(AnyU64(name)) }
func AnyBytes(name string, n int) []byte {
	b, _ := hex.DecodeString(next("bytes", name))
	return b[:len(b):len(b)] // capacity = length, as in the symbolic run (slice bounds are checked against capacity)
}
func AnyStr(name string, n int) string { return string(AnyBytes(name, n)) }

// AnyAtom is an opaque string: only equality and length are observable to the solver.
func AnyAtom(name string) string {
	b, _ := hex.DecodeString(next("atom", name))
	return string(b)
}

// Choose forks the symbolic execution over 0..n-1 (shape enumeration).
func Choose(name string, n int) int {
	v, _ := strconv.Atoi(next("choose", name))
	return v
}

func Assume(c bool) {
	if !c {
		panic(stop{"assume"})
	}
}

func Assert(c bool, label string) {
	if !c {
		cur.Events = append(cur.Events, "assert-fail:"+label)
	}
}

func Fail(label string) { cur.Events = append(cur.Events, "assert-fail:"+label) }

func Reach(label string) { cur.Events = append(cur.Events, "reach:"+label) }

// Observe records scalar observations (bool, integers, strings) compared between runs.
func Observe(label string, vals ...interface{}) {
	s := "obs:" + label
	for _, v := range vals {
		switch x := v.(type) {
		case string:
			s += " " + strconv.Quote(x)
		case []byte:
			s += " " + strconv.Quote(string(x))
		case error:
			if x == nil {
				s += " nil"
			} else {
				s += " err"
			}
		case nil:
			s += " nil"
		default:
			s += fmt.Sprintf(" %v", v)
		}
	}
	cur.Events = append(cur.Events, s)
}

func snapshot(v interface{}) string { return fmt.Sprintf("%#v", deref(reflect.ValueOf(v), 0)) }

func deref(v reflect.Value, depth int) interface{} {
	if depth > 12 || !v.IsValid() {
		return nil
	}
	switch v.Kind() {
	case reflect.Ptr, reflect.Interface:
		if v.IsNil() {
			return nil
		}
		return deref(v.Elem(), depth+1)
	case reflect.Struct:
		m := map[string]interface{}{}
		for i := 0; i < v.NumField(); i++ {
			m[v.Type().Field(i).Name] = deref(v.Field(i), depth+1)
		}
		return m
	case reflect.Slice, reflect.Array:
		if v.Kind() == reflect.Slice && v.IsNil() {
			return nil
		}
		var out []interface{}
		full := v
		if v.Kind() == reflect.Slice {
			full = v.Slice(0, v.Cap())
		}
		for i := 0; i < full.Len(); i++ {
			out = append(out, deref(full.Index(i), depth+1))
		}
		return out
	case reflect.Map:
		if v.IsNil() {
			return nil
		}
		m := map[string]interface{}{}
		for _, k := range v.MapKeys() {
			m[fmt.Sprint(k.Interface())] = deref(v.MapIndex(k), depth+1)
		}
		return m
	case reflect.Func, reflect.Chan, reflect.UnsafePointer:
		return nil
	}
	if v.CanInterface() {
		return v.Interface()
	}
	switch v.Kind() {
	case reflect.Bool:
		return v.Bool()
	case reflect.Int, reflect.Int8, reflect.Int16, reflect.Int32, reflect.Int64:
		return v.Int()
	case reflect.Uint, reflect.Uint8, reflect.Uint16, reflect.Uint32, reflect.Uint64, reflect.Uintptr:
		return v.Uint()
	case reflect.String:
		return v.String()
	case reflect.Float32, reflect.Float64:
		return v.Float()
	}
	return nil
}

// Freeze marks everything reachable from the arguments as read-only from now on.
func Freeze(vals ...interface{}) {
	for _, v := range vals {
		cur.frozen = append(cur.frozen, frozenItem{live: v, snap: snapshot(v)})
	}
}

// CheckFrozen (native only) compares frozen objects with their snapshots.
func CheckFrozen() {
	for _, f := range cur.frozen {
		if snapshot(f.live) != f.snap {
			cur.Events = append(cur.Events, "assert-fail:frozen-write")
			return
		}
	}
}

// SymbolicMapOrder makes `range` over maps explore every iteration order (symbolic run only).
func SymbolicMapOrder(on bool) {}

// SetUnwind sets the back-edge limit (unwinding assertion) for the current harness.
func SetUnwind(n int) {}

// JSONEqual reports whether two JSON-like values denote the same JSON value.
func JSONEqual(a, b interface{}) bool {
	x, err1 := json.Marshal(a)
	y, err2 := json.Marshal(b)
	if err1 != nil || err2 != nil {
		return false
	}
	var p, q interface{}
	if json.Unmarshal(x, &p) != nil || json.Unmarshal(y, &q) != nil {
		return false
	}
	return reflect.DeepEqual(p, q)
}

// SameObject reports whether a and b are the same map / slice backing / pointer.
func SameObject(a, b interface{}) bool {
	x, y := reflect.ValueOf(a), reflect.ValueOf(b)
	if !x.IsValid() || !y.IsValid() {
		return !x.IsValid() && !y.IsValid()
	}
	if x.Kind() != y.Kind() {
		return false
	}
	switch x.Kind() {
	case reflect.Map, reflect.Ptr, reflect.Slice, reflect.Func, reflect.Chan, reflect.UnsafePointer:
		return x.Pointer() == y.Pointer()
	}
	return false
}

// And / Or / Not / Implies / InRange: boolean connectives that do not fork the symbolic execution
// (Go's && and || compile to branches); natively plain functions.
func And(bs ...bool) bool {
	for _, b := range bs {
		if !b {
			return false
		}
	}
	return true
}

func Or(bs ...bool) bool {
	for _, b := range bs {
		if b {
			return true
		}
	}
	return false
}

func Not(b bool) bool              { return !b }
func Implies(a, b bool) bool       { return !a || b }
func InRange(c, lo, hi byte) bool  { return c >= lo && c <= hi }
func IteU64(c bool, a, b uint64) uint64 {
	if c {
		return a
	}
	return b
}

// HexDigit returns the ASCII hex digit of n&15 without forking the symbolic execution.
func HexDigit(n byte, upper bool) byte {
	if upper {
		return "0123456789ABCDEF"[n&15]
	}
	return "0123456789abcdef"[n&15]
}

// AnyF64Bits is an arbitrary IEEE-754 double given by its bit pattern.
func AnyF64Bits(name string) float64 { return math.Float64frombits(AnyU64(name)) }

// IgnorePanics: panics of the code under test end the path silently in this harness (they are the
// subject of the C19 harnesses running the same inputs).
func IgnorePanics() {}

// KeyLeadingZeros: generated keys and signatures may have up to n leading zero bytes at the field width
// (default 0: top byte non-zero, as for almost every real key).
func KeyLeadingZeros(n int) {}

// LeadingZerosOK lets a harness search natively for a key or signature with the byte pattern of the
// solver's model: true iff b has exactly the recorded number of leading zero bytes (symbolic run: always true).
func LeadingZerosOK(name string, b []byte) bool {
	want := -1
	for _, e := range cur.In {
		if e.K == "lz" && e.N == name {
			want, _ = strconv.Atoi(e.V)
		}
	}
	n := 0
	for _, x := range b {
		if x != 0 {
			break
		}
		n++
	}
	if want < 0 || n == want {
		return true
	}
	cur.retries++
	return cur.retries > 300000 // give up eventually: the replay will simply not reproduce
}

// NativeRetries: how often a harness repeats an experiment whose outcome depends on the Go runtime's
// unspecified choices (map iteration order): n natively, once symbolically (all orders are explored there).
func NativeRetries(n int) int { return n }

// Concurrent: the calls may be executed by different goroutines at the same time. The symbolic run records
// their lock operations and shared accesses and asks the solver for an interleaving with a data race; natively
// they run in parallel goroutines (replayed under the race detector).
func Concurrent(fs ...func()) {
	// The calls are repeated: a race through recycled state (sync.Pool, caches) only shows to the race detector once
	// an item has actually travelled from one goroutine to another. Every harness passes calls that can be repeated
	// (a repeated registration panics and is recovered here, leaving the state as it was).
	for round := 0; round < concurrentRounds; round++ {
		var wg sync.WaitGroup
		for _, f := range fs {
			wg.Add(1)
			go func(f func()) {
				defer wg.Done()
				defer func() { recover() }()
				f()
			}(f)
		}
		wg.Wait()
	}
}

const concurrentRounds = 40

// AltBase64 returns a different unpadded base64url text that decodes to the same bytes as s (the unused low
// bits of the last character are changed); ok is false when s has no unused bits (length divisible by 4).
func AltBase64(s string) (string, bool) {
	const alphabet = "ABCDEFGHIJKLMNOPQRSTUVWXYZabcdefghijklmnopqrstuvwxyz0123456789-_"
	if len(s)%4 == 0 || len(s) == 0 {
		return s, false
	}
	last := s[len(s)-1]
	for i := 0; i < len(alphabet); i++ {
		if alphabet[i] == last {
			return s[:len(s)-1] + string(alphabet[i^1]), true
		}
	}
	return s, false
}

// NativeRetryUntil lets a harness repeat a randomised step natively until an observed integer (e.g. the length
// of a signature) equals the value it had on the symbolic path being replayed. Symbolic run: records the value
// and returns true.
func NativeRetryUntil(name string, observed int) bool {
	want := observed
	for _, e := range cur.In {
		if e.K == "until" && e.N == name {
			want, _ = strconv.Atoi(e.V)
		}
	}
	if observed == want {
		return true
	}
	cur.retries++
	return cur.retries > 300000
}

// SwapCase changes the case of the first letter at index >= 3 of s (for an encoded multihash: behind the code and
// length prefix), giving a different text that is equal under case folding. ok is false if there is no such letter.
func SwapCase(s string) (string, bool) {
	for i := 3; i < len(s); i++ {
		if ch := s[i] | 0x20; ch >= 'a' && ch <= 'z' {
			return s[:i] + string(s[i]^0x20) + s[i+1:], true
		}
	}
	return s, false
}

// FloatFromDecimal returns the double nearest to d1.d2...dn x 10^exp (digits ASCII). In the symbolic run the result
// carries the digits as its shortest round-trip representation, which holds natively for n <= 15 in the normal range.
func FloatFromDecimal(digits []byte, exp int) float64 {
	s := string(digits[:1])
	if len(digits) > 1 {
		s += "." + string(digits[1:])
	}
	f, _ := strconv.ParseFloat(s+"e"+strconv.Itoa(exp), 64)
	return f
}
