#!/usr/bin/env python3
"""Regenerates /verif/MANIFEST.json from the table below (claims are edited here)."""
import json, os
V = "/verif"
ALL = ["C%02d" % i for i in range(1, 21)]
# id -> (level text, level note, design ref)
CLAIMS = json.load(open(os.path.join(V, "tools", "claims.json")))
NA = json.load(open(os.path.join(V, "tools", "not_applicable.json")))
checks = []
for pid in ALL:
    if pid not in CLAIMS:
        continue
    c = CLAIMS[pid]
    checks.append({
        "property_id": pid,
        "quick_cmd": "./check %s quick" % pid,
        "thorough_cmd": "./check %s thorough" % pid,
        "evidence_file": "/verif/evidence/%s.json" % pid,
        "replay_cmd_template": "./check --replay {path}",
        "engine": "symgo",
        "level_claimed": {"category": "model_checking", "text": c["text"], "design_ref": c.get("ref", "DESIGN.md section 5, " + pid)},
        "level_note": c["note"],
        "technique": c.get("technique", "bounded symbolic execution of go/ssa with SMT (z3; cross-checked with z3 5.1 and cvc5 in the thorough tier), counterexamples replayed natively"),
    })
na = [{"property_id": p, "reason": NA.get(p, "check not built yet; see DESIGN.md")} for p in ALL if p not in CLAIMS]
m = {
    "version": 1,
    "setup_cmd": "cd /verif/engine && GOFLAGS=-mod=mod GOPROXY=off GOSUMDB=off GOTOOLCHAIN=local go build -o /verif/bin/symgo .",
    "hooks": {
        "guard": "verif",
        "enable": "no hooks: harnesses are injected with go/packages and `go test -overlay` overlays; nothing is compiled into /repo",
        "baseline_off_cmd": "cd /repo && GOFLAGS=-mod=mod go test -json -vet=off -count=1 -timeout 25m ./...",
        "source_commits": [],
        "add_only": True,
    },
    "engines": [{"name": "symgo", "path": "/verif/engine", "serves_properties": sorted(CLAIMS.keys()),
                 "kind_free_text": "symbolic executor for go/ssa (built from /repo's working tree on every run) emitting SMT-LIB2 to z3/cvc5; library calls replaced by algebraic summaries; native replay through go test -overlay"}],
    "checks": checks,
    "not_applicable": na,
    "notes": "Findings protocol and fixed defects: known_findings.json, DESIGN.md section 7.",
}
json.dump(m, open(os.path.join(V, "MANIFEST.json"), "w"), indent=1)
print("claimed:", sorted(CLAIMS.keys()))
