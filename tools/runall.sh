#!/bin/bash
# usage: tools/runall.sh quick|thorough [ids...]
tier=$1; shift
ids=${@:-$(seq -f "C%02g" 1 20)}
cd /verif
for id in $ids; do
  s=$(date +%s)
  timeout 7200 ./check $id $tier > /tmp/runall_${id}_$tier.log 2>&1; rc=$?
  e=$(date +%s)
  echo "$id $tier exit=$rc wall=$((e-s))s $(grep -c '^VIOLATION' /tmp/runall_${id}_$tier.log) violations $(grep -c '^INCONCLUSIVE' /tmp/runall_${id}_$tier.log) inconclusive $(grep -c '^KNOWN-FINDING' /tmp/runall_${id}_$tier.log) known"
done
