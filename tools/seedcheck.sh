#!/bin/bash
# usage: seedcheck.sh <seed-name> <worktree> <property> [wt|repo]
# Confirms a seeded change (builds, suite passes, demo fails with / passes without) and runs the quick check against it.
# mode wt (default): the check runs against the worktree itself (symgo -repo <worktree>, evidence/replays in a scratch
# directory), so several seeds can be tried in parallel and /repo stays untouched; mode repo: the registered command
# with the change applied to /repo and undone afterwards (the form recorded in meta.json).
export GOFLAGS=-mod=mod GOPROXY=off GOSUMDB=off GOTOOLCHAIN=local
name=$1; wt=$2; prop=$3; mode=${4:-wt}
cd $wt || exit 1
demo_pkg=$(dirname $(git status --short | grep zz_demo_test.go | awk '{print $2}'))
echo "demo package: $demo_pkg"
git diff > /tmp/seedcheck_$name.patch
git apply -R /tmp/seedcheck_$name.patch   # remove library change, keep untracked demo
go test -count=1 ./$demo_pkg/ 2>&1 | tail -1 | sed 's/^/WITHOUT change, demo: /'
git apply /tmp/seedcheck_$name.patch
go build ./... || { echo BUILD-FAIL; exit 1; }
go test -count=1 ./$demo_pkg/ 2>&1 | grep -c "^--- FAIL" | sed 's/^/WITH change, demo failing tests: /'
mv $demo_pkg/zz_demo_test.go /tmp/zz_demo_$name.go
go test -count=1 ./pkg/... 2>&1 | grep -v "^ok\|no test files\|pkg/util/json" | head -5 | sed 's/^/SUITE: /'
mkdir -p /verif/seeded/$name
git diff > /verif/seeded/$name/patch.diff
cp /tmp/zz_demo_$name.go /verif/seeded/$name/demo_test.go
cp SEED/NOTES.md /verif/seeded/$name/NOTES.md 2>/dev/null
echo "$demo_pkg" > /verif/seeded/$name/demo_pkg.txt
if [ "$mode" = "repo" ]; then
  mv /tmp/zz_demo_$name.go $demo_pkg/zz_demo_test.go
  cd /repo && git apply /verif/seeded/$name/patch.diff || { echo APPLY-FAIL; exit 1; }
  cd /verif && timeout 1500 ./check $prop quick > /tmp/seed_$name.log 2>&1; rc=$?
  git -C /repo checkout -- .
else
  vs=/tmp/vs_$name; rm -rf $vs; mkdir -p $vs
  cp -r /verif/harness /verif/rt /verif/known_findings.json $vs/
  timeout 1500 /verif/bin/symgo -prop $prop -tier quick -repo $wt -verif $vs -workers ${SEED_WORKERS:-8} > /tmp/seed_$name.log 2>&1; rc=$?
  mv /tmp/zz_demo_$name.go $demo_pkg/zz_demo_test.go
fi
echo "CHECK exit=$rc"; grep "VIOLATION\|INCONCL\|^OK" /tmp/seed_$name.log | cut -c1-220 | head -5
