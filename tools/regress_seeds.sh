#!/bin/bash
# usage: tools/regress_seeds.sh [parallel] [seed-dir-names...]
# Re-runs the quick check of every stored seeded change (seeded/C??_?) against a scratch worktree of /repo HEAD with the
# change applied (symgo -repo <worktree>, scratch copy of harness/rt/known_findings as -verif), and of every benign
# refactoring set (seeded/benign/R?) for all 20 properties. Expected: exit 1 with a VIOLATION line for a seeded change,
# exit 0 for a benign set. /repo itself is never touched; every worktree is removed straight after its run.
export GOFLAGS=-mod=mod GOPROXY=off GOSUMDB=off GOTOOLCHAIN=local
par=${1:-5}; shift
names=${@:-$(cd /verif/seeded && ls -d C??_? benign/R?)}
one() {
  name=$1; tag=$(echo $name | tr '/' '_'); wt=/tmp/rw_$tag; vs=/tmp/rwv_$tag
  if grep -q '"detected": false' /verif/seeded/$name/meta.json 2>/dev/null; then echo "$name SKIPPED (recorded as not detected, see its meta.json)"; return; fi
  git -C /repo worktree add -q --detach $wt HEAD 2>/dev/null || { echo "$name WORKTREE-FAIL"; return; }
  if ! git -C $wt apply /verif/seeded/$name/patch.diff 2>/dev/null; then echo "$name APPLY-FAIL"; git -C /repo worktree remove --force $wt; return; fi
  rm -rf $vs; mkdir -p $vs; cp -r /verif/harness /verif/rt /verif/known_findings.json $vs/
  if [[ $name == benign/* ]]; then props=$(seq -f "C%02g" 1 20); want=0; else props=${name%%_*}; want=1; fi
  for p in $props; do
    timeout 1500 /verif/bin/symgo -prop $p -tier quick -repo $wt -verif $vs -workers ${SEED_WORKERS:-3} > /tmp/rw_${tag}_$p.log 2>&1; rc=$?
    v=$(grep -c '^VIOLATION' /tmp/rw_${tag}_$p.log)
    if [ $rc = $want ]; then st=as-expected; rm -f /tmp/rw_${tag}_$p.log; else st=UNEXPECTED; fi
    echo "$name $p exit=$rc violations=$v $st"
  done
  git -C /repo worktree remove --force $wt; rm -rf $vs
}
export -f one
echo $names | tr ' ' '\n' | xargs -P $par -I{} bash -c 'one {}'
git -C /repo worktree prune
